#!/bin/bash
# runs every claimed check of MANIFEST.json at the given tier, sequentially; prints one line per check
tier="${1:-quick}"
cd "$(dirname "$0")/.."
for id in $(python3 -c "import json;print(' '.join(c['property_id'] for c in json.load(open('MANIFEST.json'))['checks']))"); do
  s=$(date +%s)
  out=$(timeout 3600 ./check $id $tier 2>&1); rc=$?
  e=$(( $(date +%s) - s ))
  echo "$id rc=$rc ${e}s :: $(echo "$out" | grep -c '^KNOWN-FINDING') known :: $(echo "$out" | grep -E '^(VIOLATION|INCONCLUSIVE)' | head -3 | tr '\n' '|')"
done
