#!/bin/bash
# usage: tools/seed_wt.sh <seed-id>   : (re)creates the scratch worktree /tmp/wt/<seed-id> from /repo HEAD with the seeded
# patch applied (demonstration test not installed), for re-running checks with VERIF_REPO=/tmp/wt/<seed-id>.
# Remove it afterwards: git -C /repo worktree remove --force /tmp/wt/<seed-id>
set -e
id="$1"; wt=/tmp/wt/$id
[ -d "$wt" ] && git -C /repo worktree remove --force "$wt"
git -C /repo worktree add --detach "$wt" HEAD >/dev/null 2>&1
git -C "$wt" apply /verif/seeded/$id/patch.diff
echo "$wt"
