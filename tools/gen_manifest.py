#!/usr/bin/env python3
"""Regenerates /verif/MANIFEST.json from the table below (claimed checks + not_applicable)."""
import json, os
V = os.path.dirname(os.path.dirname(os.path.abspath(__file__)))
TECH = "solver-based bounded symbolic execution of the real Go code (go/ssa interpreted symbolically, SMT: z3 4.8.12 / z3 5.1.0 / cvc5 1.0), counterexamples replayed against the natively compiled code"
claimed = {
 "C06": ("DRAND-SIDE OBLIGATIONS ONLY. Two nodes with differently ordered participant lists run the real setupDKG and executeAndFinishDKG (startDKGExecution, asGroup, DBState.Complete, the real DKG store) around ONE ideal protocol outcome (the call dkg.NewProtocol is textually replaced by a stand-in returning the outcome the harness chose); SMT decides every branch; the assertions compare the participant->index assignment handed to the protocol and the group description, share index and public key each node records, also when the nodes complete a beacon period apart. The echo-broadcast board is driven with genuine, repeated and forged bundles (ideal Schnorr). The cryptographic content of C06 -- kyber's share/dkg protocol: shares on the public polynomial, any threshold signs -- is NOT decided (255-bit field arithmetic and a third-party multi-round protocol are outside the engine's reach); it enters as the stated assumption 'ideal outcome'.", "\u00a710.2 C06"),
 "C02": ("One-step (inductive) obligations of the append-only chain on the real store wrappers, from an arbitrary last beacon: every path of appendStore.Put / schemeStore.Put decided by SMT within the stated byte-length bounds.", "§5 C02"),
 "C01": ("Every path on which the real code forwards a partial to the aggregator, aggregates, or stores a synced beacon is executed symbolically with an ideal threshold-signature model at the kyber boundary; the harness re-verifies what reached the observation point (base store, aggregator queue) with its own verifier call.", "§5 C01"),
 "C03": ("The real aggregation loop (runAggregator as a modelled goroutine, partialCache, tbls.Recover from the dependency, real store stack) fed with symbolic partial packets; ghost state counts distinct valid partials; SMT decides every branch.", "§5 C03"),
 "C04": ("broadcastNextPartial and the real Handler.run loop (goroutine, select, catch-up sleep on a fake clock) executed symbolically for an arbitrary tick and stored head; every partial leaving through the fake client is compared with the node's clock; intake of partials beyond clock+1 is refused (shared harness with C01).", "§5 C04"),
 "C05": ("Bounded step obligations only: the five mechanisms the property names (tick emission, gap-triggered sync, catch-up emission, aggregation + notification, manager restart of stuck syncs) are one-step SMT-checked assertions on the real single-node code; 'eventually', the catch-up rate and all multi-node behaviour are NOT decided.", "§5 C05, §6"),
 "C07": ("Switch point of share/group in the vault through the real callback store, rejection of old-epoch partials after the switch, unchanged chain info, refusal of misaligned transition times; aggregation across a threshold-changing transition on a staying member (newChainStore wiring, running aggregator, TransitionNewGroup, then t_new-1 / t_new / t_old new-epoch partials); chain-hash independence from membership is C17.", "\u00a75 C07"),
 "C08": ("Every DBState transition method and ValidateProposal executed symbolically from an arbitrary stored state against the protocol's transition relation and rule list kept in the harness; histories of k operator commands / gossip packets (valid, stale, forged, expired) through the real Process.Command / Process.Packet over the real DKG BoltStore (bbolt model), with probes that the last completed epoch stays intact and usable; completion and failure of an execution through the real executeAndFinishDKG with an ideal protocol outcome.", "\u00a75 C08, \u00a710.2"),
 "C09": ("messageForSigning over single-field perturbations of the terms; Process.Packet on forged proposals whose signer and listed keys are symbolic choices; accept/reject/abort/execute packets with symbolic claimed sender, named participant and signing key on a node with a pending proposal in the real DKG store -- with ideal signatures at the kyber boundary.", "\u00a75 C09"),
 "C13": ("Crash points as a symbolic choice: the process is abandoned at the k-th persistence operation (key-folder writes around DKG completion; every bbolt Update before/after commit while beacons are stored and while executeAndFinishDKG records a completed or failed resharing in the real DKG store) and the real load code runs on what survived.", "\u00a75 C13"),
 "C15": ("Secrets (long-term key, share) are symbolic inputs; responses, DKG status, participant records and logger arguments are checked for syntactic dependence on them (hash/signature outputs are fresh terms, i.e. declassified); files and the DKG database are checked for owner-only mode at the time secret-dependent content is written.", "§5 C15"),
 "C19": ("readBeaconID / getBeaconProcessFromRequest / AddBeaconHandler / RemoveBeaconProcess and the HTTP handler table on a multi-chain daemon after a symbolic stop/reload history, request id and chain hash symbolic.", "§5 C19"),
 "C14": ("DKG endpoint functions on arbitrary protobuf-valid packets (every nested pointer nil/non-nil, every oneof variant) run as a request goroutine under a modelled recovery interceptor; the engine itself reports self-deadlocks, blocked-forever requests, escaped panics, leaked locks.", "§5 C14"),
 "C10": ("SyncManager.Sync / tryNode / CheckPastBeacons executed symbolically against peers whose behaviour is a symbolic choice, in every peer order; only verified in-order beacons reach the base store.", "§5 C10"),
 "C11": ("beacon.SyncChain over the real callbackStore and in-memory store with an environment writer appending at every store access point; the interleaving of appends with scan and live phase is a set of symbolic integers; a live stream whose client stalls during bursts around the real per-stream queue capacity and then resumes.", "\u00a75 C11"),
 "C12": ("callbackStore with a consumer that never returns, queue filled to the real capacity; partialCache flooded by symbolic (signer, round, previous) sequences with MaxPartialsPerNode scaled to 3.", "§5 C12"),
 "C16": ("TimeOfRound / NextRound / CurrentRound and time.Duration.Seconds executed symbolically; integers as mathematical integers with explicit mod-2^64 wrap, float64 ops as reals under IEEE-754 rounding axioms; every assertion decided unsat by a solver portfolio within the stated ranges.", "§5 C16"),
 "C17": ("Chain hash and group hash preimages built by the real code over symbolic parameters; hashes are injective uninterpreted functions, so digest equality is preimage equality; determinism and one-parameter sensitivity are SMT obligations.", "§5 C17"),
 "C18": ("Every operation sequence up to the stated length over a small round window on the real in-memory store compared step by step with a sorted-map model; sequences are symbolic, the solver decides every branch and every comparison.", "§5 C18"),
 "C20": ("decode(encode(v)) == v for the hand-written TOML / protobuf mirrors over symbolic field values, and rejection of out-of-range thresholds / unknown schemes, decided by SMT; text and wire codecs below the mirrors are outside the claim.", "§5 C20"),
}
na = {}
for i in range(1, 21):
    pid = "C%02d" % i
    if pid not in claimed:
        na[pid] = {"C06": "the content of C06 (shares lie on the group's public polynomial; any threshold of shares signs) is decided inside github.com/drand/kyber/share/dkg over 255-bit field arithmetic and a third-party multi-round protocol with its own goroutines and timers: symbolic multiplication at that width and that protocol are not encodable within reach of this engine (DESIGN.md section 6). drand-side wiring obligations (canonical participant order, group assembly) are not claimed as C06."}.get(pid, "not claimed")
checks = []
for pid, (text, ref) in sorted(claimed.items()):
    checks.append({
        "property_id": pid,
        "quick_cmd": "./check %s quick" % pid,
        "thorough_cmd": "./check %s thorough" % pid,
        "evidence_file": "/verif/evidence/%s.json" % pid,
        "replay_cmd_template": "./check %s --replay {path}" % pid,
        "engine": "symgo",
        "level_claimed": {"category": "other", "text": "Bounded symbolic execution with an SMT solver (not a proof, not sampling): " + text + " Bounds, stubs and assumptions are listed in the evidence file.", "design_ref": "DESIGN.md " + ref},
        "level_note": "Trusted: go/ssa construction, symgo instruction semantics, the SMT solvers, the library-boundary models named in evidence.coverage.trusted_base; all results hold only within evidence.coverage.bounds.",
        "technique": TECH,
    })
m = {
 "version": 1,
 "setup_cmd": "cd /verif/symgo && GOFLAGS=-mod=mod GOPROXY=off go build -o ../bin/symgo .",
 "hooks": {"guard": "verif", "enable": "no hooks in /repo: harnesses, the nondet API (internal/zzverif) and key-material helpers (internal/zzfake) are injected as overlays (go/packages Overlay for the engine, `go test -overlay` for native replay) from /verif/harness", "baseline_off_cmd": "cd /repo && go test -vet=off -count=1 -timeout 25m ./...", "source_commits": [], "add_only": True},
 "engines": [{"name": "symgo", "path": "/verif/symgo", "serves_properties": sorted(claimed), "kind_free_text": "bounded symbolic execution of drand's go/ssa with SMT (z3/z3-new/cvc5), counterexamples replayed natively"}],
 "checks": checks,
 "not_applicable": [{"property_id": k, "reason": v} for k, v in sorted(na.items())],
 "notes": "All checks: ./check <id> quick|thorough. Exit 0 = held within bounds, 1 = VIOLATION (natively reproduced), 3 = inconclusive (never reported as success).",
}
json.dump(m, open(os.path.join(V, "MANIFEST.json"), "w"), indent=1)
print("claimed", sorted(claimed), "na", len(na))
