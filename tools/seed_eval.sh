#!/bin/bash
# usage: tools/seed_eval.sh <seed-id> <worktree> <tier> <check>...   : confirm the demo in the worktree, then run checks against /repo with the patch applied
set -u
id="$1"; wt="$2"; tier="$3"; shift 3
export GOFLAGS=-mod=mod GOPROXY=off
cd "$wt" || exit 2
pkg=$(python3 -c "import json;print(json.load(open('_seed/meta.json'))['demo_pkg'])")
echo "== $id demo pkg=$pkg"
(cd "$wt" && go build ./... 2>&1 | tail -2)
with=$(cd "$wt" && timeout 300 go test -vet=off -count=1 -run 'TestZZSeedDemo' ./$pkg/ 2>&1 | tail -1)
# NB: git stash is shared between worktrees; reverse-apply the patch instead
(cd "$wt" && git apply -R _seed/patch.diff)
without=$(cd "$wt" && timeout 300 go test -vet=off -count=1 -run 'TestZZSeedDemo' ./$pkg/ 2>&1 | tail -1)
(cd "$wt" && git apply _seed/patch.diff)
echo "   demo with change: $with"
echo "   demo without    : $without"
# existing tests of the touched packages (excluding the demo)
for d in $(cd "$wt" && git diff --name-only | xargs -n1 dirname | sort -u); do
  r=$(cd "$wt" && timeout 900 go test -vet=off -count=1 -skip 'TestZZSeedDemo|TestBeaconSync|TestBeaconSimple|TestBeaconThreshold' ./$d/ 2>&1 | tail -1)
  echo "   existing tests $d: $r"
done
cd /verif
git -C /repo apply "$wt/_seed/patch.diff" || { echo "patch does not apply"; exit 2; }
for c in "$@"; do
  out=$(timeout 3000 ./check $c $tier 2>&1); rc=$?
  echo "   check $c $tier rc=$rc :: $(echo "$out" | grep -E '^(VIOLATION|INCONCLUSIVE)' | head -3 | cut -c1-160 | tr '\n' '|')"
done
git -C /repo checkout -- .
git -C /repo status --short | head -3
