#!/bin/bash
# usage: tools/seed_eval2.sh <seed-id> <tier> <check>...
# The scratch worktree /tmp/wt/<seed-id> holds the change (applied) and _seed/{patch.diff,meta.json,zzseed_demo_test.go}.
# 1. confirms the demonstration in the worktree (fails with the change, passes without), 2. runs the existing tests of the
# touched packages, 3. runs the named checks against the worktree (VERIF_REPO; /repo itself is never touched), and
# 4. copies the seed into /verif/seeded/<seed-id>/.
set -u
id="$1"; tier="$2"; shift 2
wt=/tmp/wt/$id
export GOFLAGS=-mod=mod GOPROXY=off
cd "$wt" || exit 2
pkg=$(python3 -c "import json;print(json.load(open('_seed/meta.json'))['demo_pkg'])")
tags=$(python3 -c "import json;print(json.load(open('_seed/meta.json')).get('demo_tags',''))")
echo "== $id demo pkg=$pkg"
git diff --quiet -- . ':(exclude)_seed' && { echo "   worktree has no change applied; applying"; git apply _seed/patch.diff || exit 2; }
(go build ./... 2>&1 | tail -2)
with=$(timeout 600 go test -vet=off -count=1 ${tags:+-tags $tags} -run 'TestZZSeedDemo' ./$pkg/ 2>&1 | tail -1)
git apply -R _seed/patch.diff || { echo "cannot reverse patch"; exit 2; }
without=$(timeout 600 go test -vet=off -count=1 ${tags:+-tags $tags} -run 'TestZZSeedDemo' ./$pkg/ 2>&1 | tail -1)
git apply _seed/patch.diff
echo "   demo with change: $with"
echo "   demo without    : $without"
for d in $(git diff --name-only -- . ':(exclude)_seed' | xargs -n1 dirname | sort -u); do
  r=$(timeout 1200 go test -vet=off -count=1 -skip 'TestZZSeedDemo|TestBeaconSync|TestBeaconSimple|TestBeaconThreshold' ./$d/ 2>&1 | tail -1)
  echo "   existing tests $d: $r"
done
cd /verif
mv $wt/$pkg/zzseed_demo_test.go /tmp/zzseed_demo_$id.go 2>/dev/null  # the demonstration is not part of the change under test
out=/tmp/seedout/$id; mkdir -p $out
for c in "$@"; do
  o=$(VERIF_REPO=$wt VERIF_OUT=$out timeout 3000 ./check $c $tier 2>&1); rc=$?
  echo "   check $c $tier rc=$rc :: $(echo "$o" | grep -E '^(VIOLATION|INCONCLUSIVE)' | head -4 | cut -c1-200 | tr '\n' '|')"
done
mv /tmp/zzseed_demo_$id.go $wt/$pkg/zzseed_demo_test.go 2>/dev/null
mkdir -p /verif/seeded/$id && cp $wt/_seed/patch.diff $wt/_seed/meta.json $wt/_seed/zzseed_demo_test.go /verif/seeded/$id/
