#!/usr/bin/env python3
# usage: seed_prompt.py <property-id> <seed-id> [taken idea ...]  : creates /tmp/wt/<seed-id> (detached worktree of /repo HEAD) and prints the sub-agent prompt
import json, subprocess, sys, os
pid, sid = sys.argv[1], sys.argv[2]
taken = sys.argv[3:]
wt = f"/tmp/wt/{sid}"
if not os.path.isdir(wt):
    subprocess.check_call(["git", "-C", "/repo", "worktree", "add", "--detach", wt, "HEAD"], stdout=subprocess.DEVNULL, stderr=subprocess.DEVNULL)
prop = next(json.loads(l) for l in open("/verif/properties.jsonl") if json.loads(l)["id"] == pid)
text = json.dumps({k: prop[k] for k in ("id", "title", "statement", "quantifier", "why_tests_cant", "anchors")}, indent=1)
print(f"""You are helping evaluate verification machinery for the Go project drand/drand (a distributed randomness beacon daemon: DKG + threshold BLS, resharing, chain sync). You get ONE semantic property of the code base and your own scratch git worktree of the repository at {wt}. Work ONLY inside {wt}. Never read or touch /repo or /verif (they are out of bounds), and never use `git stash` (the stash is shared between worktrees) — use `git diff > file` and `git apply -R file` / `git apply file` instead.

THE PROPERTY (JSON):
{text}

YOUR TASK: write a realistic change (a plausible refactoring, optimisation, "simplification" or bug-fix-gone-wrong a real contributor might make) to the non-test Go sources in {wt} that BREAKS this property, while
 (a) the tree still compiles (`go build ./...`),
 (b) the EXISTING tests of every package you touched still pass, unedited (`go test -vet=off -count=1 ./<pkg>/`). Note: some tests fail on the pristine tree already because the suite runs without the conn_insecure build tag (TestBeaconSync, TestBeaconSimple, TestBeaconThreshold in internal/chain/beacon, and most internal/core tests that start daemons) — run the tests of the package BEFORE your change to know the baseline and compare; a test failing before and after does not count against you,
 (c) the breakage needs something SPECIFIC to manifest: a particular interleaving, a crash or fault at a particular point, a multi-step sequence of operations, an unusual input, or two cooperating sites that each look fine alone. Do NOT make a change that ordinary use would expose at once (e.g. not "always return the wrong value"). Subtle is better than blunt; keep the diff small (typically 1-25 lines), in the files the property is anchored in or their close collaborators.
 (d) you provide a DEMONSTRATION: a new Go test file named zzseed_demo_test.go placed in the relevant package, with a test whose name starts with TestZZSeedDemo, that FAILS with your change and PASSES without it (deterministically; it must not depend on network access or on the conn_insecure tag; use the in-package fakes/mocks, a fake clock, in-memory or temp-dir stores as needed). Verify both directions yourself: run it with the change (fails), reverse the change with `git apply -R`, run again (passes), re-apply.
{('Ideas already used by someone else — do NOT repeat them, choose a different mechanism/site: ' + ' | '.join(taken)) if taken else ''}
ENVIRONMENT: offline sandbox. In every shell call first run: `export GOFLAGS=-mod=mod GOPROXY=off` (do NOT set GOSUMDB or GOTOOLCHAIN; the default `go` auto-switches to the cached go1.25 toolchain). A cold test build takes ~30-60 s. Limit parallelism (`-p 4`) — other jobs share the machine. Don't run the whole repository test suite; only the packages you touched.

DELIVERABLES, all inside {wt}/_seed/ (create the directory):
 - patch.diff   : `git diff -- . ':!_seed' ':!**/zzseed_demo_test.go'` of your source change ONLY (not the demo test); it must apply to a pristine checkout with `git apply`.
 - zzseed_demo_test.go : a copy of the demonstration test file (which also stays in its package directory in the worktree).
 - meta.json    : {{"property": "{pid}", "summary": "<what the change does and why it looks innocent>", "needs": "<what specific schedule/fault/sequence/input it needs to manifest and why ordinary use and the existing tests do not hit it>", "demo_pkg": "<package directory relative to the repo root, e.g. internal/chain/beacon>", "ran": ["<each command you ran for (a),(b),(d) and its outcome>"]}}
Leave the worktree with the change APPLIED and the demo test in place. In your final answer give: the files changed, a 3-line description of the change and of what it needs to manifest, and the outcomes of (a), (b), (d).""")
