#!/bin/bash
# compiles every harness package natively (go test -c with the harness overlay), to catch harness files that
# only the engine accepts. usage: tools/native_build.sh [repo-dir]
repo="${1:-/repo}"
cd "$(dirname "$0")/.."
export GOFLAGS=-mod=mod GOPROXY=off
tmp=$(mktemp -d); trap 'rm -rf $tmp' EXIT
python3 - "$repo" "$tmp/overlay.json" <<'PY'
import json,os,sys
repo,out=sys.argv[1],sys.argv[2]
rep={}
root='/verif/harness'
for d,_,fs in os.walk(root):
    for f in fs:
        if f.endswith('.go'):
            p=os.path.join(d,f); rep[os.path.join(repo,os.path.relpath(p,root))]=p
json.dump({"Replace":rep},open(out,'w'))
PY
rc=0
for pkg in $(cd harness && find . -name 'zz_replay_test.go' -printf '%h\n' | sed 's|^\./||' | sort -u); do
  if (cd "$repo" && go test -c -vet=off -overlay "$tmp/overlay.json" -o "$tmp/t.test" "./$pkg" 2>&1 | tail -5 | grep -v '^$' ); then rc=1; echo "FAILED: $pkg"; else echo "ok: $pkg"; fi
done
exit $rc
