package main

import (
	"fmt"
	"go/constant"
	"go/types"
	"strings"

	"golang.org/x/tools/go/ssa"
)

// Value is one of:
//
//	*Term            bool / integer / float scalars (possibly symbolic)
//	Str              strings (concrete length, bytes possibly symbolic)
//	*Value           pointers (nil = (*Value)(nil))
//	Struct, Array    aggregates (value semantics: copied on load/store)
//	Slice            slices (share backing storage like Go slices)
//	*MapObj, *ChanObj
//	Iface            interface values (T == nil => nil interface)
//	*ssa.Function, *Closure, *ssa.Builtin, *NativeFn (nil func = FuncNil{})
//	Tuple            multiple results
//	*Native          engine-native objects (errors, hashes, contexts, opaque library objects)
type Value interface{}

type Struct []Value
type Array []Value
type Tuple []Value

type Slice struct {
	A   []Value // backing window: A[0:len], cap(A) is the capacity
	Nil bool
}

type Str struct {
	C      string
	Sym    []*Term // non-nil => authoritative
	Poison bool    // content depends on a symbolic value that could not be rendered (only legal as an opaque message)
	Secret bool    // rendered from a value that depends on a secret input (fmt verbs lose the dependence otherwise)
}

func StrC(s string) Str { return Str{C: s} }

func (s Str) Len() int {
	if s.Sym != nil {
		return len(s.Sym)
	}
	return len(s.C)
}

func (s Str) IsConc() bool {
	if s.Sym == nil {
		return true
	}
	for _, b := range s.Sym {
		if !b.IsConst() {
			return false
		}
	}
	return true
}

func (s Str) Conc() string {
	if s.Sym == nil {
		return s.C
	}
	bs := make([]byte, len(s.Sym))
	for i, b := range s.Sym {
		bs[i] = byte(b.Val)
	}
	return string(bs)
}

func (s Str) Byte(i int) *Term {
	if s.Sym != nil {
		return s.Sym[i]
	}
	return BVC(uint64(s.C[i]), 8)
}

func (s Str) Bytes() []*Term {
	if s.Sym != nil {
		return s.Sym
	}
	out := make([]*Term, len(s.C))
	for i := 0; i < len(s.C); i++ {
		out[i] = BVC(uint64(s.C[i]), 8)
	}
	return out
}

func StrFromTerms(b []*Term) Str {
	allc := true
	for _, x := range b {
		if !x.IsConst() {
			allc = false
			break
		}
	}
	if allc {
		bs := make([]byte, len(b))
		for i, x := range b {
			bs[i] = byte(x.Val)
		}
		return Str{C: string(bs)}
	}
	if b == nil {
		b = []*Term{}
	}
	return Str{Sym: b}
}

type Iface struct {
	T types.Type
	V Value
}

type Closure struct {
	Fn  *ssa.Function
	Env []Value
}

type FuncNil struct{}

type NativeFn struct {
	Name string
	F    func(p *Path, args []Value) Value
}

type MapObj struct {
	Keys []Value
	Vals []Value
	KT   types.Type
	VT   types.Type
}

type Native struct {
	Kind string
	Data interface{}
}

type ErrObj struct {
	Msg     Str
	Wrapped []Value // Iface values
}

// ---------- type helpers ----------

func intInfo(t types.Type) (w int, signed bool, ok bool) {
	b, isb := t.Underlying().(*types.Basic)
	if !isb {
		return 0, false, false
	}
	switch b.Kind() {
	case types.Int8:
		return 8, true, true
	case types.Int16:
		return 16, true, true
	case types.Int32, types.UntypedRune:
		return 32, true, true
	case types.Int64, types.Int, types.UntypedInt:
		return 64, true, true
	case types.Uint8:
		return 8, false, true
	case types.Uint16:
		return 16, false, true
	case types.Uint32:
		return 32, false, true
	case types.Uint64, types.Uint, types.Uintptr:
		return 64, false, true
	}
	return 0, false, false
}

func isFloat(t types.Type) bool {
	b, ok := t.Underlying().(*types.Basic)
	return ok && b.Info()&types.IsFloat != 0
}

func isString(t types.Type) bool {
	b, ok := t.Underlying().(*types.Basic)
	return ok && b.Info()&types.IsString != 0
}

func isBool(t types.Type) bool {
	b, ok := t.Underlying().(*types.Basic)
	return ok && b.Info()&types.IsBoolean != 0
}

func zero(t types.Type) Value {
	switch u := t.Underlying().(type) {
	case *types.Basic:
		if w, _, ok := intInfo(t); ok {
			return BVC(0, w)
		}
		switch {
		case u.Info()&types.IsBoolean != 0:
			return FalseT
		case u.Info()&types.IsFloat != 0:
			return FC(0)
		case u.Info()&types.IsString != 0:
			return Str{}
		case u.Kind() == types.UnsafePointer:
			return (*Value)(nil)
		case u.Kind() == types.UntypedNil:
			return Iface{}
		case u.Info()&types.IsComplex != 0:
			return &Native{Kind: "complex"}
		}
		panic(fmt.Sprintf("zero: basic %v", u))
	case *types.Pointer:
		return (*Value)(nil)
	case *types.Struct:
		s := make(Struct, u.NumFields())
		for i := range s {
			s[i] = zero(u.Field(i).Type())
		}
		return s
	case *types.Array:
		a := make(Array, u.Len())
		for i := range a {
			a[i] = zero(u.Elem())
		}
		return a
	case *types.Slice:
		return Slice{Nil: true}
	case *types.Map:
		return (*MapObj)(nil)
	case *types.Chan:
		return (*ChanObj)(nil)
	case *types.Interface:
		return Iface{}
	case *types.Signature:
		return FuncNil{}
	case *types.Tuple:
		tp := make(Tuple, u.Len())
		for i := range tp {
			tp[i] = zero(u.At(i).Type())
		}
		return tp
	}
	panic(fmt.Sprintf("zero: unhandled type %v (%T)", t, t.Underlying()))
}

func copyVal(v Value) Value {
	switch x := v.(type) {
	case Struct:
		c := make(Struct, len(x))
		for i, f := range x {
			c[i] = copyVal(f)
		}
		return c
	case Array:
		c := make(Array, len(x))
		for i, f := range x {
			c[i] = copyVal(f)
		}
		return c
	case Tuple:
		c := make(Tuple, len(x))
		copy(c, x)
		return c
	}
	return v
}

func constValue(c *ssa.Const) Value {
	t := c.Type()
	if c.Value == nil {
		return zero(t)
	}
	if w, signed, ok := intInfo(t); ok {
		if signed {
			i, _ := constant.Int64Val(constant.ToInt(c.Value))
			return BVC(uint64(i), w)
		}
		u, exact := constant.Uint64Val(constant.ToInt(c.Value))
		if !exact {
			i, _ := constant.Int64Val(constant.ToInt(c.Value))
			u = uint64(i)
		}
		return BVC(u, w)
	}
	b := t.Underlying().(*types.Basic)
	switch {
	case b.Info()&types.IsBoolean != 0:
		return BoolC(constant.BoolVal(c.Value))
	case b.Info()&types.IsFloat != 0:
		f, _ := constant.Float64Val(c.Value)
		return FC(f)
	case b.Info()&types.IsString != 0:
		if c.Value.Kind() == constant.String {
			return StrC(constant.StringVal(c.Value))
		}
		// rune -> string
		i, _ := constant.Int64Val(constant.ToInt(c.Value))
		return StrC(string(rune(i)))
	}
	panic(fmt.Sprintf("constValue: %v : %v", c, t))
}

// ---------- equality ----------

func strEq(a, b Str) *Term {
	if a.Poison || b.Poison {
		panic(pathAbort{"unsupported", "comparison of a string rendered from a symbolic value"})
	}
	if a.Len() != b.Len() {
		return FalseT
	}
	if a.Sym == nil && b.Sym == nil {
		return BoolC(a.C == b.C)
	}
	r := TrueT
	for i := 0; i < a.Len(); i++ {
		r = And(r, Eq(a.Byte(i), b.Byte(i)))
		if r.IsFalse() {
			return r
		}
	}
	return r
}

// strLess builds lexicographic a < b.
func strLess(a, b Str) *Term {
	n := a.Len()
	if b.Len() < n {
		n = b.Len()
	}
	// from the end: less_i = a[i]<b[i] || (a[i]==b[i] && less_{i+1})
	res := BoolC(a.Len() < b.Len())
	for i := n - 1; i >= 0; i-- {
		x, y := a.Byte(i), b.Byte(i)
		res = Or(Cmp(OpUlt, x, y), And(Eq(x, y), res))
	}
	return res
}

func equals(a, b Value) *Term {
	switch x := a.(type) {
	case *Term:
		y, ok := b.(*Term)
		if !ok {
			return FalseT
		}
		return Eq(x, y)
	case Str:
		y, ok := b.(Str)
		if !ok {
			return FalseT
		}
		return strEq(x, y)
	case *Value:
		y, ok := b.(*Value)
		return BoolC(ok && x == y)
	case Struct:
		y := b.(Struct)
		r := TrueT
		for i := range x {
			r = And(r, equals(x[i], y[i]))
		}
		return r
	case Array:
		y := b.(Array)
		r := TrueT
		for i := range x {
			r = And(r, equals(x[i], y[i]))
		}
		return r
	case Iface:
		y, ok := b.(Iface)
		if !ok {
			return FalseT
		}
		if x.T == nil || y.T == nil {
			return BoolC(x.T == nil && y.T == nil)
		}
		if !types.Identical(x.T, y.T) {
			return FalseT
		}
		return equals(x.V, y.V)
	case *MapObj:
		y, ok := b.(*MapObj)
		return BoolC(ok && x == y)
	case *ChanObj:
		y, ok := b.(*ChanObj)
		return BoolC(ok && x == y)
	case *Native:
		y, ok := b.(*Native)
		return BoolC(ok && x == y)
	case Slice:
		y, ok := b.(Slice)
		if !ok {
			return FalseT
		}
		// only comparison with nil is legal in Go
		if x.Nil || y.Nil {
			return BoolC(x.Nil && y.Nil)
		}
		return BoolC(false)
	case FuncNil:
		_, ok := b.(FuncNil)
		return BoolC(ok)
	case *ssa.Function, *Closure, *ssa.Builtin, *NativeFn:
		_, isnil := b.(FuncNil)
		if isnil {
			return FalseT
		}
		return BoolC(a == b)
	}
	panic(fmt.Sprintf("equals: unhandled %T", a))
}

func describe(v Value) string {
	switch x := v.(type) {
	case *Term:
		return x.String()
	case Str:
		if x.IsConc() {
			return fmt.Sprintf("%q", x.Conc())
		}
		var sb strings.Builder
		sb.WriteString("str[")
		for _, b := range x.Sym {
			sb.WriteString(b.String())
			sb.WriteString(" ")
		}
		return sb.String() + "]"
	case *Value:
		if x == nil {
			return "nil"
		}
		return fmt.Sprintf("&%p", x)
	case Iface:
		if x.T == nil {
			return "nil-iface"
		}
		return fmt.Sprintf("iface(%v)", x.T)
	case Struct:
		return fmt.Sprintf("struct%d", len(x))
	}
	return fmt.Sprintf("%T", v)
}
