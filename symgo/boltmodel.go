package main

import (
	"fmt"
	"go/types"

	"golang.org/x/tools/go/ssa"
)

// Model of go.etcd.io/bbolt at its API: a database is a set of named buckets, each a byte-key sorted map;
// Update is all-or-nothing (snapshot, run, commit on nil error), View is a read-only snapshot.
// This is bbolt's documented ACID contract; natively the real bbolt runs (replay doubles as a check of the model).

type boltEntry struct {
	k, v []*Term
}

type boltBucketState struct {
	entries []boltEntry // sorted by key
}

type boltDBState struct {
	path    string
	buckets map[string]*boltBucketState
	names   []string
	closed  bool
	commits int
}

type boltTxState struct {
	db       *boltDBState
	writable bool
	buckets  map[string]*boltBucketState
	names    []string
	handles  map[string]*Value
}

type boltBucketHandle struct {
	tx   *boltTxState
	name string
}

type boltCursorState struct {
	b   *boltBucketHandle
	pos int // index into entries; -1 before first / invalid
}

func (b *boltBucketState) clone() *boltBucketState {
	return &boltBucketState{entries: append([]boltEntry(nil), b.entries...)}
}

func (p *Path) boltOf(ptr *Value, kind string) interface{} {
	if ptr == nil {
		p.goPanicStr("nil pointer dereference (bbolt " + kind + ")")
	}
	v, ok := p.natives[fmt.Sprintf("bolt:%s:%p", kind, ptr)]
	if !ok {
		p.unsupported("bbolt %s object not created by the model", kind)
	}
	return v
}

func (p *Path) boltNew(t types.Type, kind string, state interface{}) *Value {
	ptr := new(Value)
	*ptr = zero(t.Underlying().(*types.Pointer).Elem())
	p.natives[fmt.Sprintf("bolt:%s:%p", kind, ptr)] = state
	return ptr
}

// find returns the index of key k (forking on byte equality), or -1.
func (p *Path) boltFind(b *boltBucketState, k []*Term) int {
	for i, e := range b.entries {
		eq := bytesEqTerm(e.k, k)
		if eq.IsFalse() {
			continue
		}
		if p.Fork(eq) {
			return i
		}
	}
	return -1
}

// lowerBound returns the first index whose key is >= k.
func (p *Path) boltLowerBound(b *boltBucketState, k []*Term) int {
	for i, e := range b.entries {
		lt := strLess(StrFromTerms(e.k), StrFromTerms(k)) // e.k < k ?
		if lt.IsTrue() {
			continue
		}
		if lt.IsFalse() || !p.Fork(lt) {
			return i
		}
	}
	return len(b.entries)
}

func (p *Path) fsBolt() map[string]*boltDBState {
	m, ok := p.natives["boltfiles"].(map[string]*boltDBState)
	if !ok {
		m = map[string]*boltDBState{}
		p.natives["boltfiles"] = m
	}
	return m
}

func init() {
	bb := "go.etcd.io/bbolt."
	reg(bb+"Open", func(p *Path, fn *ssa.Function, a []Value) Value {
		path := a[0].(Str)
		if !path.IsConc() {
			p.unsupported("bbolt.Open with symbolic path")
		}
		files := p.fsBolt()
		st, ok := files[path.Conc()]
		if !ok {
			st = &boltDBState{path: path.Conc(), buckets: map[string]*boltBucketState{}}
			files[path.Conc()] = st
		}
		st.closed = false
		p.fsNoteOpen(path.Conc(), a[1])
		db := p.boltNew(fn.Signature.Results().At(0).Type(), "db", st)
		return Tuple{db, Iface{}}
	})
	runTx := func(p *Path, fn *ssa.Function, a []Value, writable bool) Value {
		st := p.boltOf(a[0].(*Value), "db").(*boltDBState)
		if st.closed {
			return p.newError(StrC("database not open"), nil)
		}
		tx := &boltTxState{db: st, writable: writable, buckets: map[string]*boltBucketState{}, handles: map[string]*Value{}}
		for _, n := range st.names {
			if writable {
				tx.buckets[n] = st.buckets[n].clone()
			} else {
				tx.buckets[n] = st.buckets[n]
			}
			tx.names = append(tx.names, n)
		}
		// the callback's parameter type gives us *bbolt.Tx
		cbSig := fn.Signature.Params().At(fn.Signature.Params().Len() - 1).Type().Underlying().(*types.Signature)
		txPtr := p.boltNew(cbSig.Params().At(0).Type(), "tx", tx)
		if writable {
			p.crashPoint("bolt:" + st.path + ":before-update")
		}
		res := p.call(a[1], []Value{txPtr}, nil, 0).(Iface)
		if writable && res.T == nil {
			// commit atomically
			st.buckets = tx.buckets
			st.names = tx.names
			st.commits++
			p.crashPoint("bolt:" + st.path + ":after-commit")
		}
		return res
	}
	reg("(*"+bb+"DB).Update", func(p *Path, fn *ssa.Function, a []Value) Value { return runTx(p, fn, a, true) })
	reg("(*"+bb+"DB).View", func(p *Path, fn *ssa.Function, a []Value) Value { return runTx(p, fn, a, false) })
	reg("(*"+bb+"DB).Close", func(p *Path, fn *ssa.Function, a []Value) Value {
		st := p.boltOf(a[0].(*Value), "db").(*boltDBState)
		st.closed = true
		return Iface{}
	})
	reg("(*"+bb+"DB).Path", func(p *Path, fn *ssa.Function, a []Value) Value {
		return StrC(p.boltOf(a[0].(*Value), "db").(*boltDBState).path)
	})
	bucketOf := func(p *Path, fn *ssa.Function, tx *boltTxState, name string, resT types.Type) *Value {
		if h, ok := tx.handles[name]; ok {
			return h
		}
		h := p.boltNew(resT, "bucket", &boltBucketHandle{tx: tx, name: name})
		tx.handles[name] = h
		return h
	}
	reg("(*"+bb+"Tx).Bucket", func(p *Path, fn *ssa.Function, a []Value) Value {
		tx := p.boltOf(a[0].(*Value), "tx").(*boltTxState)
		name := StrFromTerms(bytesOf(p, a[1])).Conc()
		if _, ok := tx.buckets[name]; !ok {
			return (*Value)(nil)
		}
		return bucketOf(p, fn, tx, name, fn.Signature.Results().At(0).Type())
	})
	create := func(ifNotExists bool) intrinsicFn {
		return func(p *Path, fn *ssa.Function, a []Value) Value {
			tx := p.boltOf(a[0].(*Value), "tx").(*boltTxState)
			name := StrFromTerms(bytesOf(p, a[1])).Conc()
			if !tx.writable {
				return Tuple{(*Value)(nil), p.newError(StrC("tx not writable"), nil)}
			}
			if _, ok := tx.buckets[name]; ok {
				if !ifNotExists {
					return Tuple{(*Value)(nil), p.newError(StrC("bucket already exists"), nil)}
				}
			} else {
				tx.buckets[name] = &boltBucketState{}
				tx.names = append(tx.names, name)
			}
			return Tuple{bucketOf(p, fn, tx, name, fn.Signature.Results().At(0).Type()), Iface{}}
		}
	}
	reg("(*"+bb+"Tx).CreateBucketIfNotExists", create(true))
	reg("(*"+bb+"Tx).CreateBucket", create(false))
	reg("(*"+bb+"Tx).DeleteBucket", func(p *Path, fn *ssa.Function, a []Value) Value {
		tx := p.boltOf(a[0].(*Value), "tx").(*boltTxState)
		name := StrFromTerms(bytesOf(p, a[1])).Conc()
		if _, ok := tx.buckets[name]; !ok {
			return p.newError(StrC("bucket not found"), nil)
		}
		delete(tx.buckets, name)
		delete(tx.handles, name)
		for i, n := range tx.names {
			if n == name {
				tx.names = append(tx.names[:i:i], tx.names[i+1:]...)
				break
			}
		}
		return Iface{}
	})
	reg("(*"+bb+"Tx).WriteTo", func(p *Path, fn *ssa.Function, a []Value) Value { return Tuple{BVC(0, 64), Iface{}} })
	state := func(p *Path, v Value) (*boltBucketHandle, *boltBucketState) {
		h := p.boltOf(v.(*Value), "bucket").(*boltBucketHandle)
		b := h.tx.buckets[h.name]
		if b == nil {
			p.unsupported("use of a deleted bbolt bucket")
		}
		return h, b
	}
	reg("(*"+bb+"Bucket).Put", func(p *Path, fn *ssa.Function, a []Value) Value {
		h, b := state(p, a[0])
		if !h.tx.writable {
			return p.newError(StrC("tx not writable"), nil)
		}
		k, v := bytesOf(p, a[1]), bytesOf(p, a[2])
		if len(k) == 0 {
			return p.newError(StrC("key required"), nil)
		}
		k, v = append([]*Term(nil), k...), append([]*Term(nil), v...)
		if p.hasSecret(sliceOfBytes(v)) {
			p.natives["boltsecret"] = h.tx.db.path
			for _, o := range p.fileOpens {
				if o.Path == h.tx.db.path && o.Mode.IsConst() && (o.Mode.Val&^0o022)&0o077 != 0 {
					p.natives["boltleak"] = h.tx.db.path
				}
			}
		}
		if i := p.boltFind(b, k); i >= 0 {
			b.entries[i].v = v
			return Iface{}
		}
		pos := p.boltLowerBound(b, k)
		b.entries = append(b.entries, boltEntry{})
		copy(b.entries[pos+1:], b.entries[pos:])
		b.entries[pos] = boltEntry{k, v}
		return Iface{}
	})
	reg("(*"+bb+"Bucket).Get", func(p *Path, fn *ssa.Function, a []Value) Value {
		_, b := state(p, a[0])
		i := p.boltFind(b, bytesOf(p, a[1]))
		if i < 0 {
			return Slice{Nil: true}
		}
		return sliceOfBytes(append([]*Term(nil), b.entries[i].v...))
	})
	reg("(*"+bb+"Bucket).Delete", func(p *Path, fn *ssa.Function, a []Value) Value {
		h, b := state(p, a[0])
		if !h.tx.writable {
			return p.newError(StrC("tx not writable"), nil)
		}
		if i := p.boltFind(b, bytesOf(p, a[1])); i >= 0 {
			b.entries = append(b.entries[:i:i], b.entries[i+1:]...)
		}
		return Iface{}
	})
	reg("(*"+bb+"Bucket).Stats", func(p *Path, fn *ssa.Function, a []Value) Value {
		_, b := state(p, a[0])
		st := zero(fn.Signature.Results().At(0).Type()).(Struct)
		stT := fn.Signature.Results().At(0).Type().Underlying().(*types.Struct)
		for i := 0; i < stT.NumFields(); i++ {
			if stT.Field(i).Name() == "KeyN" {
				st[i] = BVC(uint64(len(b.entries)), 64)
			}
		}
		return st
	})
	reg("(*"+bb+"Bucket).Cursor", func(p *Path, fn *ssa.Function, a []Value) Value {
		h, _ := state(p, a[0])
		return p.boltNew(fn.Signature.Results().At(0).Type(), "cursor", &boltCursorState{b: h, pos: -1})
	})
	reg("(*"+bb+"Bucket).ForEach", func(p *Path, fn *ssa.Function, a []Value) Value {
		_, b := state(p, a[0])
		for _, e := range append([]boltEntry(nil), b.entries...) {
			r := p.call(a[1], []Value{sliceOfBytes(e.k), sliceOfBytes(e.v)}, nil, 0).(Iface)
			if r.T != nil {
				return r
			}
		}
		return Iface{}
	})
	kv := func(c *boltCursorState) Value {
		b := c.b.tx.buckets[c.b.name]
		if b == nil || c.pos < 0 || c.pos >= len(b.entries) {
			return Tuple{Slice{Nil: true}, Slice{Nil: true}}
		}
		e := b.entries[c.pos]
		return Tuple{sliceOfBytes(append([]*Term(nil), e.k...)), sliceOfBytes(append([]*Term(nil), e.v...))}
	}
	cur := func(p *Path, v Value) (*boltCursorState, *boltBucketState) {
		c := p.boltOf(v.(*Value), "cursor").(*boltCursorState)
		return c, c.b.tx.buckets[c.b.name]
	}
	reg("(*"+bb+"Cursor).First", func(p *Path, fn *ssa.Function, a []Value) Value {
		c, b := cur(p, a[0])
		c.pos = 0
		if len(b.entries) == 0 {
			c.pos = -1
		}
		return kv(c)
	})
	reg("(*"+bb+"Cursor).Last", func(p *Path, fn *ssa.Function, a []Value) Value {
		c, b := cur(p, a[0])
		c.pos = len(b.entries) - 1
		return kv(c)
	})
	reg("(*"+bb+"Cursor).Next", func(p *Path, fn *ssa.Function, a []Value) Value {
		c, b := cur(p, a[0])
		if c.pos < 0 || c.pos >= len(b.entries) {
			c.pos = len(b.entries) // stays exhausted
			return Tuple{Slice{Nil: true}, Slice{Nil: true}}
		}
		c.pos++
		return kv(c)
	})
	reg("(*"+bb+"Cursor).Prev", func(p *Path, fn *ssa.Function, a []Value) Value {
		c, _ := cur(p, a[0])
		if c.pos >= 0 {
			c.pos--
		}
		return kv(c)
	})
	reg("(*"+bb+"Cursor).Seek", func(p *Path, fn *ssa.Function, a []Value) Value {
		c, b := cur(p, a[0])
		c.pos = p.boltLowerBound(b, bytesOf(p, a[1]))
		return kv(c)
	})
	reg("(*"+bb+"Cursor).Bucket", func(p *Path, fn *ssa.Function, a []Value) Value {
		c, _ := cur(p, a[0])
		return c.b.tx.handles[c.b.name]
	})
}

// crashPoint / fsNoteOpen are filled in by the file-system model (fsmodel.go).
