package main

import (
	"fmt"
	"go/types"
	"os"

	"golang.org/x/tools/go/ssa"
)

// Ideal model of the pairing crypto (kyber) at the library boundary.
//
//   point / scalar  = opaque tags (byte strings of the real encoded length)
//   pub(s)          = H_pub(tag(s))                       (injective UF)
//   Sign(s, m)      = H_sig(pub(s) || m)                  (deterministic, unique)
//   Verify(P, m, z) = (z == H_sig(tag(P) || m))
//   share i of the polynomial with commitments C: secret tag H_sharesec(C || i),
//       PubPoly(C).Eval(i) = pub(that secret)
//   RecoverCommit of >= t distinct valid partials on m under C = H_sig(tag(C[0]) || m)
//
// No unforgeability is modelled or needed: assertions are of the form "accepted => verifies".

type groupObj struct {
	name      string
	pointLen  int
	scalarLen int
}

type suiteObj struct {
	name   string
	g1, g2 *groupObj
}

type pointObj struct {
	grp  *groupObj
	tag  []*Term
	eval *evalInfo // set when the point is PubPoly.Eval(i)
}

type evalInfo struct {
	commits [][]*Term
	idx     *Term // 64-bit
}

type scalarObj struct {
	grp *groupObj
	tag []*Term
}

type sigSchemeObj struct {
	kind     string // "bls" | "schnorr"
	keyGroup *groupObj
	sigGroup *groupObj // bls: signatures are points of this group
	sigLen   int
}

type verifiedSig struct {
	pub *pointObj
	msg []*Term
	sig []*Term
}

func allConstZero(bs []*Term) bool {
	for _, b := range bs {
		if !b.IsConst() || b.Val != 0 {
			return false
		}
	}
	return true
}

func constBytes(n int, v byte) []*Term {
	out := make([]*Term, n)
	for i := range out {
		out[i] = BVC(uint64(v), 8)
	}
	return out
}

// expand produces n bytes from an injective hash family over `in`.
func (p *Path) expand(kind string, in []*Term, n int) []*Term {
	var out []*Term
	for blk := 0; len(out) < n; blk++ {
		out = append(out, p.hashApply(fmt.Sprintf("%s#%d", kind, blk), in)...)
	}
	return out[:n]
}

type decodeAttempt struct {
	grp   *groupObj
	bs    []*Term
	valid *Term
}

// decodeValid: is `bs` the encoding of a point of g? Encodings of points the model produced are valid;
// otherwise a fresh Boolean, functionally consistent (equal bytes => equal answer).
func (p *Path) decodeValid(g *groupObj, bs []*Term) *Term {
	for _, a := range p.decodes {
		if a.grp == g && bytesEqTerm(a.bs, bs).IsTrue() {
			return a.valid
		}
	}
	v := p.freshVar("point_decodes", BoolSort)
	for _, a := range p.decodes {
		if a.grp != g {
			continue
		}
		same := bytesEqTerm(a.bs, bs)
		if same.IsFalse() {
			continue
		}
		p.addSide(Implies(same, Eq(v, a.valid)))
	}
	p.decodes = append(p.decodes, &decodeAttempt{g, bs, v})
	return v
}

func (p *Path) mkPoint(g *groupObj, tag []*Term) Iface {
	p.markValid(g, tag)
	return Iface{T: p.eng.nativeT("kyber:point"), V: &Native{Kind: "kyber:point", Data: &pointObj{grp: g, tag: tag}}}
}

// markValid records that tag is the encoding of a point the model itself produced.
func (p *Path) markValid(g *groupObj, tag []*Term) {
	if !allConstZero(tag) {
		known := false
		for _, a := range p.decodes {
			if a.grp == g && len(a.bs) == len(tag) && (len(tag) == 0 || a.bs[0] == tag[0]) && bytesEqTerm(a.bs, tag).IsTrue() {
				known = true
				break
			}
		}
		if !known {
			for _, a := range p.decodes {
				if a.grp == g && !a.valid.IsTrue() {
					same := bytesEqTerm(a.bs, tag)
					if !same.IsFalse() {
						p.addSide(Implies(same, a.valid))
					}
				}
			}
			p.decodes = append(p.decodes, &decodeAttempt{g, tag, TrueT})
		}
	}
}

func (p *Path) mkScalar(g *groupObj, tag []*Term) Iface {
	return Iface{T: p.eng.nativeT("kyber:scalar"), V: &Native{Kind: "kyber:scalar", Data: &scalarObj{grp: g, tag: tag}}}
}

func (p *Path) mkGroup(g *groupObj) Iface {
	return Iface{T: p.eng.nativeT("kyber:group"), V: &Native{Kind: "kyber:group", Data: g}}
}

func pointOf(p *Path, v Value) *pointObj {
	ifc, ok := v.(Iface)
	if !ok || ifc.T == nil {
		p.goPanicStr("nil pointer dereference (nil kyber.Point)")
	}
	nat, ok := ifc.V.(*Native)
	if !ok || nat.Kind != "kyber:point" {
		p.unsupported("foreign kyber.Point implementation %v", ifc.T)
	}
	return nat.Data.(*pointObj)
}

func scalarOf(p *Path, v Value) *scalarObj {
	ifc, ok := v.(Iface)
	if !ok || ifc.T == nil {
		p.goPanicStr("nil pointer dereference (nil kyber.Scalar)")
	}
	nat, ok := ifc.V.(*Native)
	if !ok || nat.Kind != "kyber:scalar" {
		p.unsupported("foreign kyber.Scalar implementation %v", ifc.T)
	}
	return nat.Data.(*scalarObj)
}

func (p *Path) pubTag(s *scalarObj) []*Term {
	return p.expand("pub:"+s.grp.name, s.tag, s.grp.pointLen)
}

func (p *Path) idealSign(sc *sigSchemeObj, pubTag []*Term, msg []*Term) []*Term {
	in := append(append([]*Term{}, pubTag...), msg...)
	return p.expand("sig:"+sc.kind, in, sc.sigLen)
}

func (p *Path) shareSecretTag(commits [][]*Term, idx *Term) []*Term {
	var in []*Term
	for _, c := range commits {
		in = append(in, c...)
	}
	for i := 7; i >= 0; i-- {
		in = append(in, Extract(idx, 8*i+7, 8*i))
	}
	return p.hashApply("sharesec", in)
}

func bytesEqTerm(a, b []*Term) *Term {
	if len(a) != len(b) {
		return FalseT
	}
	r := TrueT
	for i := range a {
		r = And(r, Eq(a[i], b[i]))
		if r.IsFalse() {
			return r
		}
	}
	return r
}

var (
	bls381 = &suiteObj{name: "bls12381", g1: &groupObj{"bls12-381.G1", 48, 32}, g2: &groupObj{"bls12-381.G2", 96, 32}}
	bn254s = &suiteObj{name: "bn254", g1: &groupObj{"bn254.G1", 64, 32}, g2: &groupObj{"bn254.G2", 128, 32}}
)

func (p *Path) mkSuite(s *suiteObj) Iface {
	return Iface{T: p.eng.nativeT("kyber:suite"), V: &Native{Kind: "kyber:suite", Data: s}}
}

func suiteOf(p *Path, v Value) *suiteObj {
	switch x := v.(type) {
	case Iface:
		if nat, ok := x.V.(*Native); ok && nat.Kind == "kyber:suite" {
			return nat.Data.(*suiteObj)
		}
		if ptr, ok := x.V.(*Value); ok && ptr != nil {
			if nat, ok := (*ptr).(*Native); ok && nat.Kind == "kyber:suite" {
				return nat.Data.(*suiteObj)
			}
		}
	case *Value:
		if x != nil {
			if nat, ok := (*x).(*Native); ok && nat.Kind == "kyber:suite" {
				return nat.Data.(*suiteObj)
			}
		}
	}
	p.unsupported("not an ideal pairing suite: %T", v)
	return nil
}

func groupOf(p *Path, v Value) *groupObj {
	ifc, ok := v.(Iface)
	if ok && ifc.T != nil {
		if nat, ok := ifc.V.(*Native); ok && nat.Kind == "kyber:group" {
			return nat.Data.(*groupObj)
		}
		// drand's schnorrSuite{kyber.Group}
		if ptr, ok := ifc.V.(*Value); ok && ptr != nil {
			if st, ok := (*ptr).(Struct); ok && len(st) == 1 {
				return groupOf(p, st[0])
			}
		}
		if st, ok := ifc.V.(Struct); ok && len(st) == 1 {
			return groupOf(p, st[0])
		}
	}
	p.unsupported("not an ideal kyber group: %T", v)
	return nil
}

func (p *Path) mkSigScheme(sc *sigSchemeObj) Iface {
	return Iface{T: p.eng.nativeT("kyber:sigscheme"), V: &Native{Kind: "kyber:sigscheme", Data: sc}}
}

func init() {
	reg("github.com/drand/kyber-bls12381.NewBLS12381SuiteWithDST", func(p *Path, fn *ssa.Function, a []Value) Value { return p.mkSuite(bls381) })
	reg("github.com/drand/kyber-bls12381.NewBLS12381Suite", func(p *Path, fn *ssa.Function, a []Value) Value { return p.mkSuite(bls381) })
	reg("github.com/drand/kyber/pairing/bn254.NewSuite", func(p *Path, fn *ssa.Function, a []Value) Value {
		v := Value(&Native{Kind: "kyber:suite", Data: bn254s})
		return &v
	})
	bn := "(*github.com/drand/kyber/pairing/bn254.Suite)."
	reg(bn+"SetDomainG1", func(p *Path, fn *ssa.Function, a []Value) Value { return nil })
	reg(bn+"SetDomainG2", func(p *Path, fn *ssa.Function, a []Value) Value { return nil })
	reg(bn+"G1", func(p *Path, fn *ssa.Function, a []Value) Value { return p.mkGroup(suiteOf(p, a[0]).g1) })
	reg(bn+"G2", func(p *Path, fn *ssa.Function, a []Value) Value { return p.mkGroup(suiteOf(p, a[0]).g2) })
	blsNew := func(onG1 bool) intrinsicFn {
		return func(p *Path, fn *ssa.Function, a []Value) Value {
			s := suiteOf(p, a[0])
			if onG1 {
				return p.mkSigScheme(&sigSchemeObj{kind: "bls", keyGroup: s.g2, sigGroup: s.g1, sigLen: s.g1.pointLen})
			}
			return p.mkSigScheme(&sigSchemeObj{kind: "bls", keyGroup: s.g1, sigGroup: s.g2, sigLen: s.g2.pointLen})
		}
	}
	reg("github.com/drand/kyber/sign/bls.NewSchemeOnG1", blsNew(true))
	reg("github.com/drand/kyber/sign/bls.NewSchemeOnG2", blsNew(false))
	reg("github.com/drand/kyber/sign/schnorr.NewScheme", func(p *Path, fn *ssa.Function, a []Value) Value {
		g := groupOf(p, a[0])
		return p.mkSigScheme(&sigSchemeObj{kind: "schnorr", keyGroup: g, sigLen: g.pointLen + g.scalarLen})
	})
	reg("github.com/drand/kyber/util/random.New", func(p *Path, fn *ssa.Function, a []Value) Value {
		return Iface{T: p.eng.opaqueT, V: &Native{Kind: "opaque", Data: "random-stream"}}
	})

	// PubPoly.Eval: public share of index i
	reg("(*github.com/drand/kyber/share.PubPoly).Eval", func(p *Path, fn *ssa.Function, a []Value) Value {
		ptr := a[0].(*Value)
		if ptr == nil {
			p.goPanicStr("nil pointer dereference (PubPoly.Eval)")
		}
		st := (*ptr).(Struct)
		g := groupOf(p, st[0])
		commits := st[2].(Slice)
		var cts [][]*Term
		for _, c := range commits.A {
			cts = append(cts, pointOf(p, c).tag)
		}
		idx := a[1].(*Term)
		sec := &scalarObj{grp: g, tag: p.shareSecretTag(cts, idx)}
		pt := p.mkPoint(g, p.pubTag(sec))
		pt.V.(*Native).Data.(*pointObj).eval = &evalInfo{commits: cts, idx: idx}
		res := Value(Struct{idx, pt})
		return &res
	})
	reg("github.com/drand/drand/v2/internal/zzfake.PointFromBytes", func(p *Path, fn *ssa.Function, a []Value) Value {
		sch := (*(a[0].(*Value))).(Struct)
		// crypto.Scheme{Name, SigGroup, KeyGroup, ...}
		g := groupOf(p, sch[2])
		return p.mkPoint(g, p.expand("ptfrom:"+g.name, bytesOf(p, a[1]), g.pointLen))
	})
	reg("github.com/drand/drand/v2/internal/zzfake.Logger", func(p *Path, fn *ssa.Function, a []Value) Value {
		return Iface{T: p.eng.opaqueT, V: &Native{Kind: "opaque", Data: "logger"}}
	})
	reg("github.com/drand/drand/v2/internal/zzfake.Stream", func(p *Path, fn *ssa.Function, a []Value) Value {
		return Iface{T: p.eng.nativeT("zzstream"), V: &Native{Kind: "zzstream", Data: &streamObj{seed: strArg(p, a[0])}}}
	})
	// PriPoly.Eval: private share of index i (secret tag tied to the public commitments)
	reg("(*github.com/drand/kyber/share.PriPoly).Eval", func(p *Path, fn *ssa.Function, a []Value) Value {
		st := (*(a[0].(*Value))).(Struct)
		g := groupOf(p, st[0])
		var cts [][]*Term
		for _, c := range st[1].(Slice).A {
			cts = append(cts, p.pubTag(scalarOf(p, c)))
		}
		idx := a[1].(*Term)
		res := Value(Struct{idx, p.mkScalar(g, p.shareSecretTag(cts, idx))})
		return &res
	})
	// Lagrange interpolation of the signature from >= t distinct valid shares
	reg("github.com/drand/kyber/share.RecoverCommit", func(p *Path, fn *ssa.Function, a []Value) Value {
		g := groupOf(p, a[0])
		shares := a[1].(Slice)
		t := p.concInt(a[2].(*Term))
		type good struct {
			idx *Term
			vs  *verifiedSig
		}
		var goods []good
		for _, sv := range shares.A {
			sp := sv.(*Value)
			if sp == nil {
				continue
			}
			st := (*sp).(Struct)
			idx := st[0].(*Term)
			if ifc := st[1].(Iface); ifc.T == nil {
				continue
			}
			pt := pointOf(p, st[1])
			// find the verification record of exactly these bytes
			var rec *verifiedSig
			for _, vs := range p.verified {
				if len(vs.sig) == len(pt.tag) && bytesEqTerm(vs.sig, pt.tag).IsTrue() && vs.pub.eval != nil {
					rec = vs
					break
				}
			}
			if rec == nil {
				p.unsupported("RecoverCommit on a share that was not verified first (outside the ideal model)")
			}
			// distinct index?
			dup := false
			for _, gd := range goods {
				if p.Fork(Eq(gd.idx, idx)) {
					dup = true
					break
				}
			}
			if !dup {
				goods = append(goods, good{idx, rec})
			}
		}
		errT := fn.Signature.Results().At(1).Type()
		_ = errT
		if len(goods) < t {
			return Tuple{Iface{}, p.newError(StrC("share: not enough good public shares to reconstruct secret commitment"), nil)}
		}
		// all records must agree on polynomial and message (they do when produced by tbls.Recover)
		first := goods[0].vs
		for _, gd := range goods[1:] {
			same := bytesEqTerm(first.msg, gd.vs.msg)
			for i := range first.pub.eval.commits {
				if i < len(gd.vs.pub.eval.commits) {
					same = And(same, bytesEqTerm(first.pub.eval.commits[i], gd.vs.pub.eval.commits[i]))
				}
			}
			if !p.Fork(same) {
				p.unsupported("RecoverCommit over shares of different messages/polynomials")
			}
		}
		sc := &sigSchemeObj{kind: "bls", sigLen: g.pointLen}
		sig := p.idealSign(sc, first.pub.eval.commits[0], first.msg)
		if len(goods) < len(first.pub.eval.commits) {
			// fewer shares than the degree of the sharing polynomial + 1: interpolation yields some other
			// point (not the group signature, except with negligible probability)
			junk := p.freshBytes("underdetermined", g.pointLen)
			p.addSide(Not(bytesEqTerm(junk, sig)))
			return Tuple{p.mkPoint(g, junk), Iface{}}
		}
		return Tuple{p.mkPoint(g, sig), Iface{}}
	})
}

func (p *Path) kyberMethod(nat *Native, name string, args []Value, sig *types.Signature) Value {
	self := func() Value { return Iface{T: p.eng.nativeT(nat.Kind), V: nat} }
	switch nat.Kind {
	case "kyber:suite":
		s := nat.Data.(*suiteObj)
		switch name {
		case "G1":
			return p.mkGroup(s.g1)
		case "G2":
			return p.mkGroup(s.g2)
		case "String":
			return StrC(s.name)
		}
	case "kyber:group":
		g := nat.Data.(*groupObj)
		switch name {
		case "String":
			return StrC(g.name)
		case "PointLen":
			return BVC(uint64(g.pointLen), 64)
		case "ScalarLen":
			return BVC(uint64(g.scalarLen), 64)
		case "Point":
			return p.mkPoint(g, constBytes(g.pointLen, 0))
		case "Scalar":
			return p.mkScalar(g, constBytes(g.scalarLen, 0))
		}
	case "kyber:point":
		pt := nat.Data.(*pointObj)
		switch name {
		case "Equal":
			return bytesEqTerm(pt.tag, pointOf(p, args[0]).tag)
		case "Null":
			pt.tag, pt.eval = constBytes(pt.grp.pointLen, 0), nil
			return self()
		case "Base":
			pt.tag, pt.eval = constBytes(pt.grp.pointLen, 1), nil
			p.markValid(pt.grp, pt.tag)
			return self()
		case "Pick":
			pt.tag, pt.eval = p.pickBytes(args[0], pt.grp.pointLen), nil
			p.markValid(pt.grp, pt.tag)
			return self()
		case "Set":
			o := pointOf(p, args[0])
			pt.tag, pt.eval = o.tag, o.eval
			return self()
		case "Clone":
			c := p.mkPoint(pt.grp, pt.tag)
			c.V.(*Native).Data.(*pointObj).eval = pt.eval
			return c
		case "Mul":
			// only s*Base (public key derivation) is in the model
			if b := args[1].(Iface); b.T != nil {
				p.unsupported("kyber Point.Mul with explicit base (outside the ideal model)")
			}
			pt.tag, pt.eval = p.pubTag(scalarOf(p, args[0])), nil
			p.markValid(pt.grp, pt.tag)
			return self()
		case "String":
			return hexOfBytes(pt.tag)
		case "MarshalBinary":
			return Tuple{sliceOfBytes(append([]*Term(nil), pt.tag...)), Iface{}}
		case "MarshalSize":
			return BVC(uint64(pt.grp.pointLen), 64)
		case "MarshalTo":
			w := args[0].(Iface)
			p.ifaceWrite(w, pt.tag)
			return Tuple{BVC(uint64(len(pt.tag)), 64), Iface{}}
		case "UnmarshalBinary":
			bs := bytesOf(p, args[0])
			if len(bs) != pt.grp.pointLen {
				return p.newError(StrC("kyber: invalid point encoding length"), nil)
			}
			// real decoders also reject invalid encodings: validity is an uninterpreted predicate of the bytes
			if !p.Fork(p.decodeValid(pt.grp, bs)) {
				return p.newError(StrC("kyber: invalid point encoding"), nil)
			}
			pt.tag, pt.eval = append([]*Term(nil), bs...), nil
			return Iface{}
		}
	case "kyber:scalar":
		sc := nat.Data.(*scalarObj)
		switch name {
		case "Equal":
			return bytesEqTerm(sc.tag, scalarOf(p, args[0]).tag)
		case "Set":
			sc.tag = scalarOf(p, args[0]).tag
			return self()
		case "Clone":
			return p.mkScalar(sc.grp, sc.tag)
		case "Zero":
			sc.tag = constBytes(sc.grp.scalarLen, 0)
			return self()
		case "One":
			sc.tag = constBytes(sc.grp.scalarLen, 0)
			sc.tag[sc.grp.scalarLen-1] = BVC(1, 8)
			return self()
		case "SetBytes":
			bs := bytesOf(p, args[0])
			tag := constBytes(sc.grp.scalarLen, 0)
			for i := 0; i < len(bs) && i < sc.grp.scalarLen; i++ {
				tag[sc.grp.scalarLen-1-i] = bs[len(bs)-1-i]
			}
			sc.tag = tag
			return self()
		case "SetInt64":
			v := args[0].(*Term)
			tag := constBytes(sc.grp.scalarLen, 0)
			for i := 0; i < 8; i++ {
				tag[sc.grp.scalarLen-1-i] = Extract(v, 8*i+7, 8*i)
			}
			sc.tag = tag
			return self()
		case "Pick":
			sc.tag = p.pickBytes(args[0], sc.grp.scalarLen)
			return self()
		case "String":
			// kyber's mod.Int renders the MINIMAL big-endian bytes (big.Int.Bytes): leading zero bytes are
			// dropped. Bound: only the first byte is examined symbolically (values below 2^(8*(len-1))); further
			// constant zero bytes are dropped as well.
			tag := sc.tag
			for len(tag) > 0 && tag[0].IsConst() && tag[0].Val == 0 {
				tag = tag[1:]
			}
			if len(tag) == len(sc.tag) && len(tag) > 1 && !tag[0].IsConst() {
				if p.Fork(Eq(tag[0], BVC(0, 8))) {
					tag = tag[1:]
					for len(tag) > 0 && tag[0].IsConst() && tag[0].Val == 0 {
						tag = tag[1:]
					}
				}
			}
			return hexOfBytes(tag)
		case "MarshalBinary":
			return Tuple{sliceOfBytes(append([]*Term(nil), sc.tag...)), Iface{}}
		case "MarshalSize":
			return BVC(uint64(sc.grp.scalarLen), 64)
		case "MarshalTo":
			p.ifaceWrite(args[0].(Iface), sc.tag)
			return Tuple{BVC(uint64(len(sc.tag)), 64), Iface{}}
		case "UnmarshalBinary":
			bs := bytesOf(p, args[0])
			if len(bs) != sc.grp.scalarLen {
				return p.newError(StrC("kyber: invalid scalar encoding length"), nil)
			}
			sc.tag = append([]*Term(nil), bs...)
			return Iface{}
		}
	case "kyber:sigscheme":
		ss := nat.Data.(*sigSchemeObj)
		switch name {
		case "NewKeyPair":
			sec := &scalarObj{grp: ss.keyGroup, tag: p.freshBytes("keypair", ss.keyGroup.scalarLen)}
			return Tuple{p.mkScalar(ss.keyGroup, sec.tag), p.mkPoint(ss.keyGroup, p.pubTag(sec))}
		case "Sign":
			sec := scalarOf(p, args[0])
			p.secretUse(sec.tag)
			sg := p.idealSign(ss, p.pubTag(sec), bytesOf(p, args[1]))
			if ss.sigGroup != nil {
				p.markValid(ss.sigGroup, sg) // a genuine signature is a valid point encoding
			}
			return Tuple{sliceOfBytes(sg), Iface{}}
		case "Verify":
			pub := pointOf(p, args[0])
			msg := bytesOf(p, args[1])
			sig := bytesOf(p, args[2])
			if len(sig) != ss.sigLen {
				return p.newError(StrC("kyber: invalid signature length"), nil)
			}
			exp := p.idealSign(ss, pub.tag, msg)
			if p.eng.traceOn {
				eqt := bytesEqTerm(sig, exp)
				fmt.Fprintf(os.Stderr, "  ideal Verify: eq const=%v val=%v eval=%v\n", eqt.IsConst(), eqt.IsTrue(), pub.eval != nil)
			}
			if p.Fork(bytesEqTerm(sig, exp)) {
				p.verified = append(p.verified, &verifiedSig{pub: pub, msg: msg, sig: sig})
				if ss.sigGroup != nil {
					p.markValid(ss.sigGroup, sig) // verification decodes the signature point first
				}
				return Iface{}
			}
			return p.newError(StrC("kyber: invalid signature"), nil)
		}
	}
	p.unsupported("ideal crypto: method %s.%s not modelled", nat.Kind, name)
	return nil
}

type streamObj struct {
	seed string
	ctr  int
}

// pickBytes: deterministic bytes for a zzfake seed stream, fresh symbolic bytes otherwise.
func (p *Path) pickBytes(stream Value, n int) []*Term {
	if ifc, ok := stream.(Iface); ok {
		if nat, ok := ifc.V.(*Native); ok && nat.Kind == "zzstream" {
			so := nat.Data.(*streamObj)
			so.ctr++
			in := []*Term{}
			for _, c := range []byte(fmt.Sprintf("%s/%d", so.seed, so.ctr)) {
				in = append(in, BVC(uint64(c), 8))
			}
			return p.expand("pick", in, n)
		}
	}
	return p.freshBytes("pick", n)
}

func (p *Path) freshBytes(prefix string, n int) []*Term {
	out := make([]*Term, n)
	for i := range out {
		out[i] = p.freshVar(prefix, BV(8))
	}
	return out
}

// secretUse marks the legitimate use of a secret inside the crypto model (declassification point).
func (p *Path) secretUse(tag []*Term) {}

// ifaceWrite calls w.Write(bytes) on an io.Writer interface value.
func (p *Path) ifaceWrite(w Iface, bs []*Term) {
	if w.T == nil {
		p.goPanicStr("nil pointer dereference (nil io.Writer)")
	}
	if nat, ok := w.V.(*Native); ok {
		if h, ok := nat.Data.(*hashObj); ok {
			h.buf = append(h.buf, bs...)
			return
		}
		p.unsupported("write to native %s", nat.Kind)
	}
	m := p.findMethod(w.T, "Write")
	if m == nil {
		p.unsupported("io.Writer without Write: %v", w.T)
	}
	p.callFn(m, []Value{w.V, sliceOfBytes(append([]*Term(nil), bs...))}, nil, nil)
}
