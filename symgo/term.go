package main

import (
	"fmt"
	"math"
	"math/bits"
)

// Term is a node of the SMT term DAG. Machine integers are bit-vectors of the
// width of the Go type (wrapping semantics are then exact), booleans are Bool,
// floats are kept as symbolic float operations (printed per solver mode).

type SortKind uint8

const (
	SBool SortKind = iota
	SBV
	SFloat
)

type Sort struct {
	K SortKind
	W int
}

var (
	BoolSort  = Sort{SBool, 0}
	FloatSort = Sort{SFloat, 64}
)

func BV(w int) Sort { return Sort{SBV, w} }

type Op uint8

const (
	OpConst Op = iota
	OpVar
	OpAdd
	OpSub
	OpMul
	OpUDiv
	OpSDiv
	OpURem
	OpSRem
	OpAnd
	OpOr
	OpXor
	OpShl
	OpLShr
	OpAShr
	OpNot // bvnot
	OpNeg
	OpEq
	OpUlt
	OpUle
	OpSlt
	OpSle
	OpBAnd
	OpBOr
	OpBNot
	OpIte
	OpZExt
	OpSExt
	OpExtract // a=hi b=lo
	OpConcat
	// floats
	OpFAdd
	OpFSub
	OpFMul
	OpFDiv
	OpFNeg
	OpFLt
	OpFLe
	OpFEq
	OpFFloor
	OpFCeil
	OpFLog2
	OpI2F // a=1 signed
	OpF2I // a=1 signed ; sort = BV(w)
)

var opNames = map[Op]string{
	OpAdd: "bvadd", OpSub: "bvsub", OpMul: "bvmul", OpUDiv: "bvudiv", OpSDiv: "bvsdiv", OpURem: "bvurem", OpSRem: "bvsrem",
	OpAnd: "bvand", OpOr: "bvor", OpXor: "bvxor", OpShl: "bvshl", OpLShr: "bvlshr", OpAShr: "bvashr", OpNot: "bvnot", OpNeg: "bvneg",
	OpEq: "=", OpUlt: "bvult", OpUle: "bvule", OpSlt: "bvslt", OpSle: "bvsle", OpBAnd: "and", OpBOr: "or", OpBNot: "not", OpIte: "ite",
	OpConcat: "concat",
}

type Term struct {
	Op     Op
	S      Sort
	Args   []*Term
	Val    uint64  // const bv/bool value
	F      float64 // const float
	Name   string  // var
	A, B   int
	bk     uint8 // bounds cache: 0 unknown, 1 computed
	lo     uint64
	hi     uint64
	orig   *Term // hex character produced from this byte (see hexOfBytes)
	origHi bool
}

func (t *Term) IsConst() bool { return t.Op == OpConst }
func (t *Term) IsTrue() bool  { return t.Op == OpConst && t.S.K == SBool && t.Val == 1 }
func (t *Term) IsFalse() bool { return t.Op == OpConst && t.S.K == SBool && t.Val == 0 }

func mask(w int) uint64 {
	if w >= 64 {
		return ^uint64(0)
	}
	return (uint64(1) << uint(w)) - 1
}

func signExt(v uint64, w int) int64 {
	if w >= 64 {
		return int64(v)
	}
	sh := uint(64 - w)
	return int64(v<<sh) >> sh
}

var (
	TrueT  = &Term{Op: OpConst, S: BoolSort, Val: 1}
	FalseT = &Term{Op: OpConst, S: BoolSort, Val: 0}
)

func BoolC(b bool) *Term {
	if b {
		return TrueT
	}
	return FalseT
}

func BVC(v uint64, w int) *Term {
	if w > 64 {
		panic("BVC width>64")
	}
	return &Term{Op: OpConst, S: BV(w), Val: v & mask(w)}
}

func FC(f float64) *Term { return &Term{Op: OpConst, S: FloatSort, F: f} }

func Var(name string, s Sort) *Term { return &Term{Op: OpVar, S: s, Name: name} }

func sameTerm(a, b *Term) bool {
	if a == b {
		return true
	}
	if a.Op != b.Op || a.S != b.S {
		return false
	}
	switch a.Op {
	case OpConst:
		if a.S.K == SFloat {
			return a.F == b.F
		}
		return a.Val == b.Val
	case OpVar:
		return a.Name == b.Name
	}
	if len(a.Args) != len(b.Args) || a.A != b.A || a.B != b.B {
		return false
	}
	// shallow structural compare (bounded depth to stay cheap)
	return sameDepth(a, b, 3)
}

func sameDepth(a, b *Term, d int) bool {
	if a == b {
		return true
	}
	if d == 0 || a.Op != b.Op || a.S != b.S || len(a.Args) != len(b.Args) || a.A != b.A || a.B != b.B {
		return false
	}
	switch a.Op {
	case OpConst:
		if a.S.K == SFloat {
			return a.F == b.F
		}
		return a.Val == b.Val
	case OpVar:
		return a.Name == b.Name
	}
	for i := range a.Args {
		if !sameDepth(a.Args[i], b.Args[i], d-1) {
			return false
		}
	}
	return true
}

func mk(op Op, s Sort, args ...*Term) *Term { return &Term{Op: op, S: s, Args: args} }

// ubounds returns unsigned bounds lo <= t <= hi derived from the term structure alone.
func ubounds(t *Term) (uint64, uint64) {
	if t.S.K != SBV {
		return 0, 1
	}
	if t.bk == 1 {
		return t.lo, t.hi
	}
	lo, hi := uint64(0), mask(t.S.W)
	switch t.Op {
	case OpConst:
		lo, hi = t.Val, t.Val
	case OpZExt:
		lo, hi = ubounds(t.Args[0])
	case OpExtract:
		if t.B == 0 {
			l, h := ubounds(t.Args[0])
			if h <= mask(t.S.W) {
				lo, hi = l, h
			}
		}
	case OpAnd:
		_, h0 := ubounds(t.Args[0])
		_, h1 := ubounds(t.Args[1])
		lo = 0
		if h0 < h1 {
			hi = h0
		} else {
			hi = h1
		}
	case OpAdd:
		l0, h0 := ubounds(t.Args[0])
		l1, h1 := ubounds(t.Args[1])
		if h0+h1 >= h0 && h0+h1 <= mask(t.S.W) {
			lo, hi = l0+l1, h0+h1
		}
	case OpSub:
		l0, h0 := ubounds(t.Args[0])
		l1, h1 := ubounds(t.Args[1])
		if l0 >= h1 {
			lo, hi = l0-h1, h0-l1
		}
	case OpMul:
		l0, h0 := ubounds(t.Args[0])
		l1, h1 := ubounds(t.Args[1])
		hh, ll := bits.Mul64(h0, h1)
		if hh == 0 && ll <= mask(t.S.W) {
			lo, hi = l0*l1, ll
		}
	case OpUDiv:
		l0, h0 := ubounds(t.Args[0])
		l1, h1 := ubounds(t.Args[1])
		if l1 > 0 {
			lo, hi = l0/h1, h0/l1
		}
	case OpURem:
		_, h0 := ubounds(t.Args[0])
		l1, h1 := ubounds(t.Args[1])
		if l1 > 0 {
			hi = h1 - 1
			if h0 < hi {
				hi = h0
			}
		}
	case OpLShr:
		if t.Args[1].IsConst() && t.Args[1].Val < 64 {
			l0, h0 := ubounds(t.Args[0])
			lo, hi = l0>>t.Args[1].Val, h0>>t.Args[1].Val
		}
	case OpIte:
		l0, h0 := ubounds(t.Args[1])
		l1, h1 := ubounds(t.Args[2])
		lo, hi = l0, h0
		if l1 < lo {
			lo = l1
		}
		if h1 > hi {
			hi = h1
		}
	}
	t.bk, t.lo, t.hi = 1, lo, hi
	return lo, hi
}

// mulNoWrap reports whether t = x*c (c constant) cannot wrap, returning x and c.
func mulNoWrap(t *Term) (*Term, uint64, bool) {
	if t.Op != OpMul {
		return nil, 0, false
	}
	for i := 0; i < 2; i++ {
		c, x := t.Args[i], t.Args[1-i]
		if c.IsConst() && c.Val != 0 {
			_, hx := ubounds(x)
			hh, ll := bits.Mul64(hx, c.Val)
			if hh == 0 && ll <= mask(t.S.W) {
				return x, c.Val, true
			}
		}
	}
	return nil, 0, false
}

// ---------- bit-vector arithmetic with constant folding ----------

func BinBV(op Op, a, b *Term) *Term {
	if a.S != b.S {
		panic(fmt.Sprintf("BinBV sort mismatch %v %v op %d", a.S, b.S, op))
	}
	w := a.S.W
	if a.IsConst() && b.IsConst() {
		x, y := a.Val, b.Val
		var r uint64
		switch op {
		case OpAdd:
			r = x + y
		case OpSub:
			r = x - y
		case OpMul:
			r = x * y
		case OpUDiv:
			if y == 0 {
				r = mask(w)
			} else {
				r = x / y
			}
		case OpURem:
			if y == 0 {
				r = x
			} else {
				r = x % y
			}
		case OpSDiv:
			sx, sy := signExt(x, w), signExt(y, w)
			if sy == 0 {
				if sx >= 0 {
					r = mask(w)
				} else {
					r = 1
				}
			} else if sy == -1 {
				r = uint64(-sx)
			} else {
				r = uint64(sx / sy)
			}
		case OpSRem:
			sx, sy := signExt(x, w), signExt(y, w)
			if sy == 0 {
				r = x
			} else if sy == -1 {
				r = 0
			} else {
				r = uint64(sx % sy)
			}
		case OpAnd:
			r = x & y
		case OpOr:
			r = x | y
		case OpXor:
			r = x ^ y
		case OpShl:
			if y >= uint64(w) {
				r = 0
			} else {
				r = x << y
			}
		case OpLShr:
			if y >= uint64(w) {
				r = 0
			} else {
				r = x >> y
			}
		case OpAShr:
			sx := signExt(x, w)
			if y >= uint64(w) {
				if sx < 0 {
					r = mask(w)
				} else {
					r = 0
				}
			} else {
				r = uint64(sx >> y)
			}
		default:
			panic("BinBV op")
		}
		return BVC(r, w)
	}
	// signed division of provably non-negative operands is unsigned division
	if op == OpSDiv || op == OpSRem {
		_, ha := ubounds(a)
		_, hb := ubounds(b)
		if w > 1 && ha < uint64(1)<<uint(w-1) && hb < uint64(1)<<uint(w-1) {
			if op == OpSDiv {
				return BinBV(OpUDiv, a, b)
			}
			return BinBV(OpURem, a, b)
		}
	}
	if (op == OpUDiv || op == OpURem) && b.IsConst() && b.Val != 0 {
		if x, c, ok := mulNoWrap(a); ok && c%b.Val == 0 {
			if op == OpURem {
				return BVC(0, w)
			}
			return BinBV(OpMul, x, BVC(c/b.Val, w))
		}
		if _, ha := ubounds(a); ha < b.Val {
			if op == OpURem {
				return a
			}
			return BVC(0, w)
		}
	}
	// local identities
	switch op {
	case OpAdd:
		if a.IsConst() && a.Val == 0 {
			return b
		}
		if b.IsConst() && b.Val == 0 {
			return a
		}
		// (x + c1) + c2
		if b.IsConst() && a.Op == OpAdd && a.Args[1].IsConst() {
			return BinBV(OpAdd, a.Args[0], BVC(a.Args[1].Val+b.Val, w))
		}
		if b.IsConst() && a.Op == OpSub && a.Args[1].IsConst() {
			return BinBV(OpAdd, a.Args[0], BVC(b.Val-a.Args[1].Val, w))
		}
	case OpSub:
		if b.IsConst() && b.Val == 0 {
			return a
		}
		if a.Op == OpAdd {
			if sameTerm(a.Args[0], b) {
				return a.Args[1]
			}
			if sameTerm(a.Args[1], b) {
				return a.Args[0]
			}
		}
		if sameTerm(a, b) {
			return BVC(0, w)
		}
		if b.IsConst() {
			return BinBV(OpAdd, a, BVC(-b.Val, w))
		}
	case OpMul:
		if a.IsConst() && a.Val == 1 {
			return b
		}
		if b.IsConst() && b.Val == 1 {
			return a
		}
		if (a.IsConst() && a.Val == 0) || (b.IsConst() && b.Val == 0) {
			return BVC(0, w)
		}
	case OpAnd:
		if (a.IsConst() && a.Val == 0) || (b.IsConst() && b.Val == 0) {
			return BVC(0, w)
		}
		if a.IsConst() && a.Val == mask(w) {
			return b
		}
		if b.IsConst() && b.Val == mask(w) {
			return a
		}
	case OpOr, OpXor:
		if a.IsConst() && a.Val == 0 {
			return b
		}
		if b.IsConst() && b.Val == 0 {
			return a
		}
	case OpShl, OpLShr, OpAShr:
		if b.IsConst() && b.Val == 0 {
			return a
		}
	}
	return mk(op, a.S, a, b)
}

func NotBV(a *Term) *Term {
	if a.IsConst() {
		return BVC(^a.Val, a.S.W)
	}
	return mk(OpNot, a.S, a)
}

func NegBV(a *Term) *Term {
	if a.IsConst() {
		return BVC(-a.Val, a.S.W)
	}
	return mk(OpNeg, a.S, a)
}

// ---------- comparisons ----------

func Eq(a, b *Term) *Term {
	if a.S != b.S {
		panic(fmt.Sprintf("Eq sort mismatch %v %v", a.S, b.S))
	}
	if a.S.K == SFloat {
		return FCmp(OpFEq, a, b)
	}
	if a.IsConst() && b.IsConst() {
		return BoolC(a.Val == b.Val)
	}
	if sameTerm(a, b) {
		return TrueT
	}
	if a.S.K == SBool {
		if a.IsConst() {
			a, b = b, a
		}
		if b.IsConst() {
			if b.Val == 1 {
				return a
			}
			return Not(a)
		}
	}
	// x*c == y*c without wrap-around  ->  x == y
	if xa, ca, ok := mulNoWrap(a); ok {
		if xb, cb, ok := mulNoWrap(b); ok && ca == cb && xa.S == xb.S {
			return Eq(xa, xb)
		}
	}
	// (x + c1) == c2  -> x == c2-c1
	if b.IsConst() && a.Op == OpAdd && a.Args[1].IsConst() {
		return Eq(a.Args[0], BVC(b.Val-a.Args[1].Val, a.S.W))
	}
	// zext(x) == c
	if b.IsConst() && a.Op == OpZExt {
		iw := a.Args[0].S.W
		if b.Val&^mask(iw) != 0 {
			return FalseT
		}
		return Eq(a.Args[0], BVC(b.Val, iw))
	}
	if a.IsConst() && !b.IsConst() {
		return Eq(b, a)
	}
	// concat(x1..xn) == const : split
	if b.IsConst() && a.Op == OpConcat {
		res := TrueT
		sh := a.S.W
		for _, p := range a.Args {
			sh -= p.S.W
			res = And(res, Eq(p, BVC(b.Val>>uint(sh), p.S.W)))
		}
		return res
	}
	return mk(OpEq, BoolSort, a, b)
}

func Cmp(op Op, a, b *Term) *Term {
	if a.S != b.S {
		panic("Cmp sort mismatch")
	}
	w := a.S.W
	if a.IsConst() && b.IsConst() {
		switch op {
		case OpUlt:
			return BoolC(a.Val < b.Val)
		case OpUle:
			return BoolC(a.Val <= b.Val)
		case OpSlt:
			return BoolC(signExt(a.Val, w) < signExt(b.Val, w))
		case OpSle:
			return BoolC(signExt(a.Val, w) <= signExt(b.Val, w))
		}
	}
	if sameTerm(a, b) {
		return BoolC(op == OpUle || op == OpSle)
	}
	switch op {
	case OpUlt:
		if b.IsConst() && b.Val == 0 {
			return FalseT
		}
	case OpUle:
		if a.IsConst() && a.Val == 0 {
			return TrueT
		}
		if b.IsConst() && b.Val == mask(w) {
			return TrueT
		}
	}
	return mk(op, BoolSort, a, b)
}

// ---------- booleans ----------

func Not(a *Term) *Term {
	if a.IsConst() {
		return BoolC(a.Val == 0)
	}
	if a.Op == OpBNot {
		return a.Args[0]
	}
	return mk(OpBNot, BoolSort, a)
}

func And(a, b *Term) *Term {
	if a.IsFalse() || b.IsFalse() {
		return FalseT
	}
	if a.IsTrue() {
		return b
	}
	if b.IsTrue() {
		return a
	}
	if a == b {
		return a
	}
	return mk(OpBAnd, BoolSort, a, b)
}

func Or(a, b *Term) *Term {
	if a.IsTrue() || b.IsTrue() {
		return TrueT
	}
	if a.IsFalse() {
		return b
	}
	if b.IsFalse() {
		return a
	}
	if a == b {
		return a
	}
	return mk(OpBOr, BoolSort, a, b)
}

func Implies(a, b *Term) *Term { return Or(Not(a), b) }

func Ite(c, a, b *Term) *Term {
	if c.IsTrue() {
		return a
	}
	if c.IsFalse() {
		return b
	}
	if a.S != b.S {
		panic("Ite sort mismatch")
	}
	if sameTerm(a, b) {
		return a
	}
	if a.S.K == SBool {
		if a.IsTrue() && b.IsFalse() {
			return c
		}
		if a.IsFalse() && b.IsTrue() {
			return Not(c)
		}
	}
	return mk(OpIte, a.S, c, a, b)
}

// ---------- width changes ----------

func ZExt(a *Term, w int) *Term {
	if a.S.W == w {
		return a
	}
	if a.S.W > w {
		return Extract(a, w-1, 0)
	}
	if a.IsConst() {
		return BVC(a.Val, w)
	}
	t := mk(OpZExt, BV(w), a)
	return t
}

func SExt(a *Term, w int) *Term {
	if a.S.W == w {
		return a
	}
	if a.S.W > w {
		return Extract(a, w-1, 0)
	}
	if a.IsConst() {
		return BVC(uint64(signExt(a.Val, a.S.W)), w)
	}
	return mk(OpSExt, BV(w), a)
}

func Extract(a *Term, hi, lo int) *Term {
	w := hi - lo + 1
	if lo == 0 && w == a.S.W {
		return a
	}
	if a.IsConst() {
		return BVC(a.Val>>uint(lo), w)
	}
	switch a.Op {
	case OpZExt:
		in := a.Args[0]
		if hi < in.S.W {
			return Extract(in, hi, lo)
		}
		if lo >= in.S.W {
			return BVC(0, w)
		}
	case OpSExt:
		in := a.Args[0]
		if hi < in.S.W {
			return Extract(in, hi, lo)
		}
	case OpExtract:
		return Extract(a.Args[0], hi+a.B, lo+a.B)
	case OpConcat:
		// find the part(s) covered
		off := a.S.W
		for _, p := range a.Args {
			off -= p.S.W // p occupies [off, off+p.W)
			if lo >= off && hi < off+p.S.W {
				return Extract(p, hi-off, lo-off)
			}
		}
	case OpOr, OpAnd, OpXor:
		return BinBV(a.Op, Extract(a.Args[0], hi, lo), Extract(a.Args[1], hi, lo))
	case OpShl:
		if a.Args[1].IsConst() {
			k := int(a.Args[1].Val)
			if lo >= k {
				return Extract(a.Args[0], hi-k, lo-k)
			}
			if hi < k {
				return BVC(0, w)
			}
		}
	case OpLShr:
		if a.Args[1].IsConst() {
			k := int(a.Args[1].Val)
			if hi+k < a.S.W {
				return Extract(a.Args[0], hi+k, lo+k)
			}
			if lo+k >= a.S.W {
				return BVC(0, w)
			}
		}
	}
	t := mk(OpExtract, BV(w), a)
	t.A, t.B = hi, lo
	return t
}

func Concat(parts ...*Term) *Term {
	// parts[0] is most significant
	w := 0
	allc := true
	for _, p := range parts {
		w += p.S.W
		if !p.IsConst() {
			allc = false
		}
	}
	if w > 64 {
		panic("Concat wider than 64 bits")
	}
	if allc {
		var v uint64
		for _, p := range parts {
			v = v<<uint(p.S.W) | p.Val
		}
		return BVC(v, w)
	}
	// merge adjacent extracts of same source: extract(x,h,m+1) ++ extract(x,m,l)
	var out []*Term
	for _, p := range parts {
		if n := len(out); n > 0 {
			q := out[n-1]
			if q.Op == OpExtract && p.Op == OpExtract && q.Args[0] == p.Args[0] && q.B == p.A+1 {
				out[n-1] = Extract(q.Args[0], q.A, p.B)
				continue
			}
			if q.IsConst() && p.IsConst() && q.S.W+p.S.W <= 64 {
				out[n-1] = BVC(q.Val<<uint(p.S.W)|p.Val, q.S.W+p.S.W)
				continue
			}
		}
		out = append(out, p)
	}
	if len(out) == 1 {
		return out[0]
	}
	// leading zero constant => zext
	if out[0].IsConst() && out[0].Val == 0 && len(out) == 2 {
		return ZExt(out[1], w)
	}
	return &Term{Op: OpConcat, S: BV(w), Args: out}
}

// ---------- floats ----------

func FBin(op Op, a, b *Term) *Term {
	if b.IsConst() {
		// exact identities of IEEE arithmetic
		if (op == OpFDiv || op == OpFMul) && b.F == 1.0 {
			return a
		}
		if (op == OpFAdd || op == OpFSub) && b.F == 0 {
			return a
		}
	}
	if a.IsConst() && b.IsConst() {
		switch op {
		case OpFAdd:
			return FC(a.F + b.F)
		case OpFSub:
			return FC(a.F - b.F)
		case OpFMul:
			return FC(a.F * b.F)
		case OpFDiv:
			return FC(a.F / b.F)
		}
	}
	return mk(op, FloatSort, a, b)
}

func FCmp(op Op, a, b *Term) *Term {
	if a.IsConst() && b.IsConst() {
		switch op {
		case OpFLt:
			return BoolC(a.F < b.F)
		case OpFLe:
			return BoolC(a.F <= b.F)
		case OpFEq:
			return BoolC(a.F == b.F)
		}
	}
	return mk(op, BoolSort, a, b)
}

func FUn(op Op, a *Term) *Term {
	if a.IsConst() {
		switch op {
		case OpFNeg:
			return FC(-a.F)
		case OpFFloor:
			return FC(math.Floor(a.F))
		case OpFCeil:
			return FC(math.Ceil(a.F))
		case OpFLog2:
			return FC(math.Log2(a.F))
		}
	}
	return mk(op, FloatSort, a)
}

func I2F(a *Term, signed bool) *Term {
	if a.IsConst() {
		if signed {
			return FC(float64(signExt(a.Val, a.S.W)))
		}
		return FC(float64(a.Val))
	}
	t := mk(OpI2F, FloatSort, a)
	if signed {
		t.A = 1
	}
	return t
}

func F2I(a *Term, w int, signed bool) *Term {
	if a.IsConst() {
		if signed {
			return BVC(uint64(int64(a.F)), w)
		}
		if a.F < 0 {
			return BVC(uint64(int64(a.F)), w)
		}
		return BVC(uint64(a.F), w)
	}
	if a.Op == OpI2F && a.A == 0 {
		// unsigned integer below 2^53 converts exactly; truncation to w bits as in Go for in-range values
		x := a.Args[0]
		if _, hx := ubounds(x); hx < 1<<53 {
			lim := mask(w)
			if signed {
				lim = mask(w - 1)
			}
			if hx <= lim {
				return ZExt(x, w)
			}
		}
	}
	if a.Op == OpI2F && a.A == 1 {
		x := a.Args[0]
		if _, hx := ubounds(x); hx < 1<<53 { // provably non-negative and small
			lim := mask(w)
			if signed {
				lim = mask(w - 1)
			}
			if hx <= lim {
				return ZExt(x, w)
			}
		}
	}
	t := mk(OpF2I, BV(w), a)
	if signed {
		t.A = 1
	}
	return t
}

// ---------- misc ----------

func log2floor(v uint64) int { return bits.Len64(v) - 1 }

func (t *Term) String() string {
	switch t.Op {
	case OpConst:
		switch t.S.K {
		case SBool:
			if t.Val == 1 {
				return "true"
			}
			return "false"
		case SFloat:
			return fmt.Sprintf("%g", t.F)
		}
		return fmt.Sprintf("%d:%d", t.Val, t.S.W)
	case OpVar:
		return t.Name
	}
	s := fmt.Sprintf("(op%d", t.Op)
	if n, ok := opNames[t.Op]; ok {
		s = "(" + n
	}
	for _, a := range t.Args {
		s += " " + a.String()
	}
	return s + ")"
}
