package main

import (
	"fmt"
	"go/token"
	"go/types"
	"unicode/utf8"

	"golang.org/x/tools/go/ssa"
)

func (p *Path) unop(in *ssa.UnOp, x Value) Value {
	switch in.Op {
	case token.MUL: // load
		ptr, ok := x.(*Value)
		if !ok {
			p.unsupported("load from %T", x)
		}
		if ptr == nil {
			p.goPanicStr("nil pointer dereference (load)")
		}
		return copyVal(*ptr)
	case token.NOT:
		return Not(x.(*Term))
	case token.SUB:
		t := x.(*Term)
		if t.S.K == SFloat {
			return FUn(OpFNeg, t)
		}
		return NegBV(t)
	case token.XOR:
		return NotBV(x.(*Term))
	case token.ARROW:
		v, ok := p.chanRecv(x)
		if v == nil {
			v = zero(in.X.Type().Underlying().(*types.Chan).Elem())
		}
		if in.CommaOk {
			return Tuple{v, BoolC(ok)}
		}
		return v
	}
	p.unsupported("unop %v", in.Op)
	return nil
}

func (p *Path) binop(op token.Token, t types.Type, x, y Value) Value {
	switch op {
	case token.EQL:
		return equals(x, y)
	case token.NEQ:
		return Not(equals(x, y))
	}
	switch a := x.(type) {
	case Str:
		b := y.(Str)
		switch op {
		case token.ADD:
			if a.Sym == nil && b.Sym == nil {
				return StrC(a.C + b.C)
			}
			return StrFromTerms(append(append([]*Term{}, a.Bytes()...), b.Bytes()...))
		case token.LSS:
			return strLess(a, b)
		case token.GTR:
			return strLess(b, a)
		case token.LEQ:
			return Not(strLess(b, a))
		case token.GEQ:
			return Not(strLess(a, b))
		}
	case *Term:
		b := y.(*Term)
		if a.S.K == SFloat {
			switch op {
			case token.ADD:
				return FBin(OpFAdd, a, b)
			case token.SUB:
				return FBin(OpFSub, a, b)
			case token.MUL:
				return FBin(OpFMul, a, b)
			case token.QUO:
				return FBin(OpFDiv, a, b)
			case token.LSS:
				return FCmp(OpFLt, a, b)
			case token.LEQ:
				return FCmp(OpFLe, a, b)
			case token.GTR:
				return FCmp(OpFLt, b, a)
			case token.GEQ:
				return FCmp(OpFLe, b, a)
			}
			p.unsupported("float binop %v", op)
		}
		if a.S.K == SBool {
			switch op {
			case token.AND, token.LAND:
				return And(a, b)
			case token.OR, token.LOR:
				return Or(a, b)
			}
			p.unsupported("bool binop %v", op)
		}
		_, signed, _ := intInfo(t)
		w := a.S.W
		switch op {
		case token.ADD:
			return BinBV(OpAdd, a, b)
		case token.SUB:
			return BinBV(OpSub, a, b)
		case token.MUL:
			return BinBV(OpMul, a, b)
		case token.QUO, token.REM:
			if !b.IsConst() || b.Val == 0 {
				if p.Fork(Eq(b, BVC(0, w))) {
					p.goPanicStr("integer divide by zero")
				}
			}
			if signed {
				if op == token.QUO {
					return BinBV(OpSDiv, a, b)
				}
				return BinBV(OpSRem, a, b)
			}
			if op == token.QUO {
				return BinBV(OpUDiv, a, b)
			}
			return BinBV(OpURem, a, b)
		case token.AND:
			return BinBV(OpAnd, a, b)
		case token.OR:
			return BinBV(OpOr, a, b)
		case token.XOR:
			return BinBV(OpXor, a, b)
		case token.AND_NOT:
			return BinBV(OpAnd, a, NotBV(b))
		case token.SHL, token.SHR:
			// shift count may have another width; Go: count is unsigned (or checked non-negative)
			if !b.IsConst() && p.h.Arith == ModeInt {
				b = BVC(p.Concretize(b), b.S.W)
			}
			var cnt *Term
			if b.S.W < w {
				cnt = ZExt(b, w)
			} else if b.S.W > w {
				// if count >= w result is 0 / sign fill
				big := Cmp(OpUle, BVC(uint64(w), b.S.W), b)
				cnt = Ite(big, BVC(uint64(w), w), Extract(b, w-1, 0))
			} else {
				cnt = b
			}
			if op == token.SHL {
				return BinBV(OpShl, a, cnt)
			}
			if signed {
				return BinBV(OpAShr, a, cnt)
			}
			return BinBV(OpLShr, a, cnt)
		case token.LSS:
			if signed {
				return Cmp(OpSlt, a, b)
			}
			return Cmp(OpUlt, a, b)
		case token.LEQ:
			if signed {
				return Cmp(OpSle, a, b)
			}
			return Cmp(OpUle, a, b)
		case token.GTR:
			if signed {
				return Cmp(OpSlt, b, a)
			}
			return Cmp(OpUlt, b, a)
		case token.GEQ:
			if signed {
				return Cmp(OpSle, b, a)
			}
			return Cmp(OpUle, b, a)
		}
	}
	p.unsupported("binop %v on %T", op, x)
	return nil
}

func (p *Path) convert(from, to types.Type, x Value) Value {
	fu, tu := from.Underlying(), to.Underlying()
	// pointer / unsafe conversions
	if _, ok := tu.(*types.Pointer); ok {
		return x
	}
	if b, ok := tu.(*types.Basic); ok && b.Kind() == types.UnsafePointer {
		return x
	}
	if tw, _, ok := intInfo(to); ok {
		if fw, fsigned, ok2 := intInfo(from); ok2 {
			t := x.(*Term)
			_ = fw
			if fsigned {
				return SExt(t, tw)
			}
			return ZExt(t, tw)
		}
		if isFloat(from) {
			_, tsigned, _ := intInfo(to)
			return F2I(x.(*Term), tw, tsigned)
		}
		if b, ok := fu.(*types.Basic); ok && b.Kind() == types.UnsafePointer {
			p.unsupported("unsafe pointer to integer")
		}
	}
	if isFloat(to) {
		if _, fsigned, ok := intInfo(from); ok {
			return I2F(x.(*Term), fsigned)
		}
		if isFloat(from) {
			return x
		}
	}
	if isString(to) {
		switch v := x.(type) {
		case Str:
			return v
		case Slice: // []byte or []rune -> string
			et := fu.(*types.Slice).Elem()
			if w, _, _ := intInfo(et); w == 8 {
				bs := make([]*Term, len(v.A))
				for i, e := range v.A {
					bs[i] = e.(*Term)
				}
				return StrFromTerms(bs)
			}
			var rs []rune
			for _, e := range v.A {
				rs = append(rs, rune(p.Concretize(e.(*Term))))
			}
			return StrC(string(rs))
		case *Term: // integer -> string (rune)
			return StrC(string(rune(p.Concretize(v))))
		}
	}
	if ts, ok := tu.(*types.Slice); ok {
		if s, ok := x.(Str); ok {
			if w, _, _ := intInfo(ts.Elem()); w == 8 {
				bs := s.Bytes()
				a := make([]Value, len(bs))
				for i, b := range bs {
					a[i] = b
				}
				return Slice{A: a}
			}
			var a []Value
			for _, r := range s.Conc() {
				a = append(a, BVC(uint64(r), 32))
			}
			return Slice{A: a}
		}
		return x
	}
	if isBool(to) && isBool(from) {
		return x
	}
	// typeparam-instantiated or identical underlying
	if types.Identical(fu, tu) {
		return x
	}
	p.unsupported("convert %v -> %v", from, to)
	return nil
}

// concInt returns a concrete Go int for a (possibly symbolic) integer term.
func (p *Path) concInt(t *Term) int {
	if t.IsConst() {
		return int(signExt(t.Val, t.S.W))
	}
	v := p.Concretize(t)
	return int(signExt(v, t.S.W))
}

// indexIn checks 0 <= idx < n (forking into the panic side) and returns a concrete index.
func (p *Path) indexIn(idx *Term, n int) int {
	if idx.IsConst() {
		i := signExt(idx.Val, idx.S.W)
		if i < 0 || i >= int64(n) {
			p.goPanicStr(fmt.Sprintf("index out of range [%d] with length %d", i, n))
		}
		return int(i)
	}
	inb := Cmp(OpUlt, idx, BVC(uint64(n), idx.S.W))
	if !p.Fork(inb) {
		p.goPanicStr(fmt.Sprintf("index out of range [symbolic] with length %d", n))
	}
	return int(p.Concretize(idx))
}

// selectElem reads elems[idx] building an ite-chain for small symbolic scalar arrays.
func (p *Path) selectElem(idx *Term, elems []Value) Value {
	if idx.IsConst() {
		return elems[p.indexIn(idx, len(elems))]
	}
	if len(elems) <= 32 && len(elems) > 0 {
		if _, ok := elems[0].(*Term); ok {
			inb := Cmp(OpUlt, idx, BVC(uint64(len(elems)), idx.S.W))
			if !p.Fork(inb) {
				p.goPanicStr(fmt.Sprintf("index out of range [symbolic] with length %d", len(elems)))
			}
			res := elems[len(elems)-1].(*Term)
			for i := len(elems) - 2; i >= 0; i-- {
				res = Ite(Eq(idx, BVC(uint64(i), idx.S.W)), elems[i].(*Term), res)
			}
			return res
		}
	}
	return elems[p.indexIn(idx, len(elems))]
}

func (p *Path) strIndex(s Str, idx *Term) Value {
	if idx.IsConst() {
		i := p.indexIn(idx, s.Len())
		return s.Byte(i)
	}
	bs := s.Bytes()
	vs := make([]Value, len(bs))
	for i, b := range bs {
		vs[i] = b
	}
	return p.selectElem(idx, vs)
}

func (p *Path) sliceOp(in *ssa.Slice, fr *Frame) Value {
	x := fr.get(in.X)
	opt := func(v ssa.Value, def int) int {
		if v == nil {
			return def
		}
		return p.concIntBounded(fr.get(v).(*Term))
	}
	switch c := x.(type) {
	case Str:
		lo := opt(in.Low, 0)
		hi := opt(in.High, c.Len())
		if lo < 0 || hi > c.Len() || lo > hi {
			p.goPanicStr(fmt.Sprintf("slice bounds out of range [%d:%d] with length %d", lo, hi, c.Len()))
		}
		if c.Sym == nil {
			return StrC(c.C[lo:hi])
		}
		return StrFromTerms(c.Sym[lo:hi])
	case Slice:
		cp := cap(c.A)
		lo := opt(in.Low, 0)
		hi := opt(in.High, len(c.A))
		mx := opt(in.Max, cp)
		if lo < 0 || hi > cp || lo > hi || mx > cp || hi > mx {
			p.goPanicStr(fmt.Sprintf("slice bounds out of range [%d:%d:%d] with capacity %d", lo, hi, mx, cp))
		}
		if c.Nil && lo == 0 && hi == 0 {
			return Slice{Nil: true}
		}
		return Slice{A: c.A[lo:hi:mx]}
	case *Value:
		if c == nil {
			p.goPanicStr("nil pointer dereference (slice of array)")
		}
		arr := (*c).(Array)
		lo := opt(in.Low, 0)
		hi := opt(in.High, len(arr))
		mx := opt(in.Max, len(arr))
		if lo < 0 || hi > len(arr) || lo > hi || mx > len(arr) || hi > mx {
			p.goPanicStr("slice bounds out of range (array)")
		}
		return Slice{A: []Value(arr)[lo:hi:mx]}
	}
	p.unsupported("slice of %T", x)
	return nil
}

// concIntBounded concretises a slice bound; symbolic bounds are forked over feasible values.
func (p *Path) concIntBounded(t *Term) int { return p.concInt(t) }

// ---------- maps ----------

func (p *Path) mapFind(m *MapObj, key Value) int {
	for i, k := range m.Keys {
		e := equals(k, key)
		if e.IsTrue() {
			return i
		}
		if e.IsFalse() {
			continue
		}
		if p.Fork(e) {
			return i
		}
	}
	return -1
}

func (p *Path) mapLookup(m *MapObj, key Value) (Value, bool) {
	if m == nil {
		return nil, false
	}
	p.checkHashable(key)
	i := p.mapFind(m, key)
	if i < 0 {
		return nil, false
	}
	return m.Vals[i], true
}

func (p *Path) checkHashable(key Value) {
	if ifc, ok := key.(Iface); ok && ifc.T != nil {
		if !types.Comparable(ifc.T) {
			p.goPanicStr("runtime error: hash of unhashable type " + ifc.T.String())
		}
	}
}

func (p *Path) mapUpdate(m *MapObj, key, val Value) {
	p.checkHashable(key)
	i := p.mapFind(m, key)
	if i >= 0 {
		m.Vals[i] = val
		return
	}
	m.Keys = append(m.Keys, copyVal(key))
	m.Vals = append(m.Vals, val)
}

func (p *Path) mapDelete(m *MapObj, key Value) {
	if m == nil {
		return
	}
	i := p.mapFind(m, key)
	if i < 0 {
		return
	}
	m.Keys = append(m.Keys[:i:i], m.Keys[i+1:]...)
	m.Vals = append(m.Vals[:i:i], m.Vals[i+1:]...)
}

// ---------- range ----------

type rangeIt struct {
	kind int // 0 map, 1 string
	m    *MapObj
	keys []Value
	s    string
	i    int
}

func (p *Path) rangeIter(x Value, t types.Type) Value {
	switch c := x.(type) {
	case *MapObj:
		it := &rangeIt{kind: 0, m: c}
		if c != nil {
			it.keys = append([]Value(nil), c.Keys...)
		}
		return it
	case Str:
		if !c.IsConc() {
			p.unsupported("range over symbolic string")
		}
		return &rangeIt{kind: 1, s: c.Conc()}
	}
	p.unsupported("range over %T", x)
	return nil
}

func (it *rangeIt) next(p *Path) Value {
	if it.kind == 1 {
		if it.i >= len(it.s) {
			return Tuple{FalseT, BVC(0, 64), BVC(0, 32)}
		}
		r, sz := utf8.DecodeRuneInString(it.s[it.i:])
		res := Tuple{TrueT, BVC(uint64(it.i), 64), BVC(uint64(r), 32)}
		it.i += sz
		return res
	}
	for it.i < len(it.keys) {
		k := it.keys[it.i]
		it.i++
		// skip entries deleted during iteration (identity by position in current key list)
		for j, kk := range it.m.Keys {
			if sameValueIdentity(kk, k) {
				return Tuple{TrueT, k, it.m.Vals[j]}
			}
		}
	}
	return Tuple{FalseT, nil, nil}
}

// sameValueIdentity: cheap syntactic identity used only to detect deletions during map iteration.
func sameValueIdentity(a, b Value) bool {
	e := equals(a, b)
	return e.IsTrue()
}

// ---------- type assertions ----------

func (p *Path) implements(dyn types.Type, v Value, asserted types.Type) bool {
	if it, ok := asserted.Underlying().(*types.Interface); ok {
		if nat, isNat := v.(*Native); isNat {
			return nativeImplements(p, nat, dyn, it)
		}
		return types.Implements(dyn, it)
	}
	return types.Identical(dyn, asserted)
}

func (p *Path) typeAssert(in *ssa.TypeAssert, x Iface) Value {
	ok := x.T != nil && p.implements(x.T, x.V, in.AssertedType)
	_, toIface := in.AssertedType.Underlying().(*types.Interface)
	var res Value
	if ok {
		if toIface {
			res = x
		} else {
			res = copyVal(x.V)
		}
	} else {
		if in.CommaOk {
			res = zero(in.AssertedType)
		} else {
			from := "nil"
			if x.T != nil {
				from = x.T.String()
			}
			p.goPanicStr(fmt.Sprintf("interface conversion: interface is %s, not %s", from, in.AssertedType))
		}
	}
	if in.CommaOk {
		return Tuple{res, BoolC(ok)}
	}
	return res
}

// ---------- builtins ----------

func (p *Path) builtin(b *ssa.Builtin, args []Value, caller *Frame) Value {
	switch b.Name() {
	case "len":
		switch x := args[0].(type) {
		case Str:
			return BVC(uint64(x.Len()), 64)
		case Slice:
			return BVC(uint64(len(x.A)), 64)
		case *MapObj:
			if x == nil {
				return BVC(0, 64)
			}
			return BVC(uint64(len(x.Keys)), 64)
		case *ChanObj:
			if x == nil {
				return BVC(0, 64)
			}
			return BVC(uint64(len(x.Buf)), 64)
		case Array:
			return BVC(uint64(len(x)), 64)
		case *Value:
			if x == nil {
				p.unsupported("len of nil array pointer")
			}
			return BVC(uint64(len((*x).(Array))), 64)
		}
	case "cap":
		switch x := args[0].(type) {
		case Slice:
			return BVC(uint64(cap(x.A)), 64)
		case *ChanObj:
			if x == nil {
				return BVC(0, 64)
			}
			return BVC(uint64(x.Cap), 64)
		case Array:
			return BVC(uint64(len(x)), 64)
		}
	case "append":
		s := args[0].(Slice)
		var add []Value
		switch y := args[1].(type) {
		case Slice:
			add = y.A
		case Str:
			for _, bt := range y.Bytes() {
				add = append(add, bt)
			}
		}
		if len(add) == 0 {
			return s
		}
		cp := make([]Value, len(add))
		for i, v := range add {
			cp[i] = copyVal(v)
		}
		return Slice{A: append(s.A, cp...)}
	case "copy":
		dst := args[0].(Slice)
		var src []Value
		switch y := args[1].(type) {
		case Slice:
			src = y.A
		case Str:
			for _, bt := range y.Bytes() {
				src = append(src, bt)
			}
		}
		n := len(src)
		if len(dst.A) < n {
			n = len(dst.A)
		}
		tmp := make([]Value, n)
		for i := 0; i < n; i++ {
			tmp[i] = copyVal(src[i])
		}
		copy(dst.A, tmp)
		return BVC(uint64(n), 64)
	case "delete":
		p.mapDelete(args[0].(*MapObj), args[1])
		return nil
	case "close":
		p.chanClose(args[0])
		return nil
	case "panic":
		v := args[0].(Iface)
		panic(goPanic{val: v, msg: p.panicString(v)})
	case "recover":
		return p.doRecover(caller)
	case "print", "println":
		return nil
	case "min", "max":
		t := args[0].(*Term)
		res := t
		for _, a := range args[1:] {
			o := a.(*Term)
			var lt *Term
			if t.S.K == SFloat {
				lt = FCmp(OpFLt, o, res)
			} else {
				// signedness from builtin signature
				_, signed, _ := intInfo(b.Type().(*types.Signature).Params().At(0).Type())
				if signed {
					lt = Cmp(OpSlt, o, res)
				} else {
					lt = Cmp(OpUlt, o, res)
				}
			}
			if b.Name() == "max" {
				lt = Not(Or(lt, Eq(o, res)))
			}
			res = Ite(lt, o, res)
		}
		return res
	case "clear":
		switch x := args[0].(type) {
		case *MapObj:
			if x != nil {
				x.Keys, x.Vals = nil, nil
			}
		case Slice:
			for i := range x.A {
				x.A[i] = zeroLike(x.A[i])
			}
		}
		return nil
	case "ssa:wrapnilchk":
		recv := args[0].(*Value)
		if recv == nil {
			p.goPanicStr("value method called using nil pointer")
		}
		return recv
	}
	p.unsupported("builtin %s(%T)", b.Name(), args[0])
	return nil
}

func zeroLike(v Value) Value {
	switch x := v.(type) {
	case *Term:
		switch x.S.K {
		case SBool:
			return FalseT
		case SFloat:
			return FC(0)
		}
		return BVC(0, x.S.W)
	case Str:
		return Str{}
	case *Value:
		return (*Value)(nil)
	case Iface:
		return Iface{}
	}
	return v
}

// doRecover implements recover(): caller is the deferred function's frame; the
// panicking frame is its caller.
func (p *Path) doRecover(deferredFrame *Frame) Value {
	if deferredFrame == nil || deferredFrame.caller == nil {
		return Iface{}
	}
	fr := deferredFrame.caller
	if fr.panicking {
		fr.panicking = false
		if gp, ok := fr.panicVal.(goPanic); ok {
			return gp.val
		}
		return Iface{}
	}
	return Iface{}
}
