module symgo

go 1.25.0

require (
	golang.org/x/crypto v0.48.0
	golang.org/x/tools v0.29.0
)

require (
	golang.org/x/mod v0.22.0 // indirect
	golang.org/x/sync v0.10.0 // indirect
	golang.org/x/sys v0.41.0 // indirect
)
