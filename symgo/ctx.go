package main

import (
	"go/types"

	"golang.org/x/tools/go/ssa"
)

// context.Context model: cancelable objects; deadlines never fire by themselves.

type ctxObj struct {
	parent   *ctxObj
	done     *ChanObj
	err      Value // Iface
	key      Value
	val      Value
	hasKV    bool
	children []*ctxObj
	cause    Value
}

func (p *Path) newCtx(parent *ctxObj) (*ctxObj, Iface) {
	c := &ctxObj{parent: parent}
	if parent != nil {
		parent.children = append(parent.children, c)
		if parent.isCanceled() {
			c.done = &ChanObj{Closed: true, id: p.nextChanID()}
			c.err = parent.getErr()
		}
	}
	return c, Iface{T: p.eng.nativeT("ctx"), V: &Native{Kind: "ctx", Data: c}}
}

func (c *ctxObj) isCanceled() bool {
	for x := c; x != nil; x = x.parent {
		if x.done != nil && x.done.Closed {
			return true
		}
	}
	return false
}

func (c *ctxObj) getErr() Value {
	for x := c; x != nil; x = x.parent {
		if x.done != nil && x.done.Closed {
			return x.err
		}
	}
	return Iface{}
}

func (p *Path) ctxCancel(c *ctxObj, err Value) {
	if c.done == nil {
		c.done = &ChanObj{id: p.nextChanID()}
	}
	if c.done.Closed {
		return
	}
	c.done.Closed = true
	c.err = err
	for _, ch := range c.children {
		p.ctxCancel(ch, err)
	}
}

func ctxFrom(p *Path, v Value) *ctxObj {
	ifc := v.(Iface)
	if ifc.T == nil {
		p.goPanicStr("cannot create context from nil parent")
	}
	nat, ok := ifc.V.(*Native)
	if !ok || nat.Kind != "ctx" {
		if ok && nat.Kind == "opaque" {
			return nil
		}
		p.unsupported("foreign context implementation %v", ifc.T)
	}
	return nat.Data.(*ctxObj)
}

func (p *Path) canceledErr() Value {
	if v, ok := p.natives["ctx.Canceled"]; ok {
		return v.(Value)
	}
	e := p.newError(StrC("context canceled"), nil)
	p.natives["ctx.Canceled"] = e
	return e
}

func (p *Path) ctxMethod(nat *Native, name string, args []Value) Value {
	c := nat.Data.(*ctxObj)
	switch name {
	case "Done":
		// lazily create; a never-cancelable context returns a channel that never fires
		for x := c; x != nil; x = x.parent {
			if x.done != nil && x.done.Closed {
				return x.done
			}
		}
		if c.done == nil {
			c.done = &ChanObj{id: p.nextChanID()}
		}
		return c.done
	case "Err":
		if c.isCanceled() {
			return c.getErr()
		}
		return Iface{}
	case "Value":
		for x := c; x != nil; x = x.parent {
			if x.hasKV && equals(x.key, args[0]).IsTrue() {
				return x.val
			}
		}
		return Iface{}
	case "Deadline":
		return Tuple{zero(p.eng.timeType), FalseT}
	}
	p.unsupported("ctx method %s", name)
	return nil
}

func init() {
	reg("context.Background", func(p *Path, fn *ssa.Function, a []Value) Value { _, i := p.newCtx(nil); return i })
	reg("context.TODO", func(p *Path, fn *ssa.Function, a []Value) Value { _, i := p.newCtx(nil); return i })
	cancelable := func(p *Path, fn *ssa.Function, a []Value) Value {
		parent := ctxFrom(p, a[0])
		c, i := p.newCtx(parent)
		if c.done == nil {
			c.done = &ChanObj{id: p.nextChanID()}
		}
		cancel := &NativeFn{Name: "cancel", F: func(p *Path, _ []Value) Value {
			p.ctxCancel(c, p.canceledErr())
			return nil
		}}
		return Tuple{i, cancel}
	}
	reg("context.WithCancel", cancelable)
	reg("context.WithTimeout", cancelable)
	reg("context.WithDeadline", cancelable)
	reg("context.WithCancelCause", func(p *Path, fn *ssa.Function, a []Value) Value {
		parent := ctxFrom(p, a[0])
		c, i := p.newCtx(parent)
		c.done = &ChanObj{id: p.nextChanID()}
		cancel := &NativeFn{Name: "cancelCause", F: func(p *Path, args []Value) Value {
			c.cause = args[0]
			p.ctxCancel(c, p.canceledErr())
			return nil
		}}
		return Tuple{i, cancel}
	})
	reg("context.WithValue", func(p *Path, fn *ssa.Function, a []Value) Value {
		parent := ctxFrom(p, a[0])
		c, i := p.newCtx(parent)
		c.hasKV, c.key, c.val = true, a[1], a[2]
		return i
	})
	// zz.WithRemote(ctx, addr): the remote peer's address as the gRPC server would attach it; read back by
	// the modelled internal/net.RemoteAddress
	reg(zzPkg+".WithRemote", func(p *Path, fn *ssa.Function, a []Value) Value {
		parent := ctxFrom(p, a[0])
		c, i := p.newCtx(parent)
		c.hasKV, c.key, c.val = true, StrC("zz:remote-address"), a[1]
		return i
	})
	reg(modPath+"/internal/net.RemoteAddress", func(p *Path, fn *ssa.Function, a []Value) Value {
		for x := ctxFrom(p, a[0]); x != nil; x = x.parent {
			if x.hasKV {
				if k, ok := x.key.(Str); ok && k.IsConc() && k.Conc() == "zz:remote-address" {
					return x.val
				}
			}
		}
		return StrC("")
	})
	reg("context.WithoutCancel", func(p *Path, fn *ssa.Function, a []Value) Value { _, i := p.newCtx(nil); return i })
	reg("context.Cause", func(p *Path, fn *ssa.Function, a []Value) Value {
		c := ctxFrom(p, a[0])
		for x := c; x != nil; x = x.parent {
			if x.cause != nil {
				return x.cause
			}
		}
		if c != nil && c.isCanceled() {
			return c.getErr()
		}
		return Iface{}
	})
	_ = types.Typ
}
