package main

import (
	"fmt"

	"golang.org/x/tools/go/ssa"
)

// Crash points and file-mode bookkeeping.
//
// A crash is a symbolic choice of the harness: zz.CrashAt(k) arms the k-th persistence point (k concrete after
// forking); when the counter reaches k the running unit is abandoned by a crashSignal that only
// zz.RunUntilCrash catches -- nothing after the crash point executes, exactly like a process kill.
// The persistent models (bbolt files, file modes) survive in the path state; the harness then runs the
// real load code on them.

type crashSignal struct{ at string }

type fileOpen struct {
	Path string
	Mode *Term
}

func (p *Path) crashPoint(name string) {
	p.crashCount++
	p.crashNames = append(p.crashNames, name)
	if p.crashArmed > 0 && p.crashCount == p.crashArmed {
		p.crashedAt = name
		panic(crashSignal{name})
	}
}

func (p *Path) fsNoteOpen(path string, mode Value) {
	if m, ok := mode.(*Term); ok {
		p.fileOpens = append(p.fileOpens, fileOpen{path, m})
	}
}

func init() {
	z := func(n string, f intrinsicFn) { reg(zzPkg+"."+n, f) }
	z("CrashAt", func(p *Path, fn *ssa.Function, a []Value) Value {
		p.crashArmed = p.concInt(a[0].(*Term))
		p.crashCount = 0
		return nil
	})
	z("RunUntilCrash", func(p *Path, fn *ssa.Function, a []Value) Value {
		crashed := false
		func() {
			defer func() {
				if r := recover(); r != nil {
					if _, ok := r.(crashSignal); ok {
						crashed = true
						return
					}
					panic(r)
				}
			}()
			p.call(a[0], nil, nil, 0)
		}()
		if crashed {
			// the process is gone: every other goroutine dies with it
			for _, g := range p.sched.gs {
				if g != p.sched.cur && !g.done {
					g.killed = true
					g.wait = func() bool { return false }
				}
			}
			// locks held by the dead process do not exist after restart
			for _, m := range p.mutexes {
				m.locked, m.owner, m.readers = false, nil, 0
				m.rowners = map[*G]int{}
			}
		}
		p.crashArmed = 0
		return BoolC(crashed)
	})
	z("CrashPoint", func(p *Path, fn *ssa.Function, a []Value) Value { p.crashPoint(strArg(p, a[0])); return nil })
	z("TempDir", func(p *Path, fn *ssa.Function, a []Value) Value {
		n, _ := p.natives["tmpdirs"].(int)
		p.natives["tmpdirs"] = n + 1
		return StrC(fmt.Sprintf("/zztmp/%s-%d", strArg(p, a[0]), n))
	})
	z("CrashPointsSeen", func(p *Path, fn *ssa.Function, a []Value) Value { return BVC(uint64(p.crashCount), 64) })
	z("CrashedAt", func(p *Path, fn *ssa.Function, a []Value) Value { return StrC(p.crashedAt) })
	z("FileModes", func(p *Path, fn *ssa.Function, a []Value) Value {
		// returns the list of (path, mode) pairs of modelled opens, as two parallel slices
		var paths, modes []Value
		for _, o := range p.fileOpens {
			paths = append(paths, StrC(o.Path))
			modes = append(modes, ZExt(o.Mode, 32))
		}
		return Tuple{Slice{A: paths}, Slice{A: modes}}
	})
}
