package main

import (
	"bufio"
	"fmt"
	"io"
	"math/big"
	"math/bits"
	"os"
	"os/exec"
	"strings"
	"sync"
	"sync/atomic"
	"time"
)

type Result int

const (
	Unknown Result = iota
	Sat
	Unsat
)

func (r Result) String() string { return [...]string{"unknown", "sat", "unsat"}[r] }

const (
	ModeBV  = 0
	ModeInt = 1
)

type SolverStats struct {
	Queries  int64
	Sat      int64
	Unsat    int64
	Unknown  int64
	Errors   int64
	Retries  int64
	WallNs   int64
	Portf    int64
	PortfWin map[string]int64
}

var gStats = struct {
	sync.Mutex
	m map[string]*SolverStats
}{m: map[string]*SolverStats{}}

func statFor(kind string) *SolverStats {
	gStats.Lock()
	defer gStats.Unlock()
	s := gStats.m[kind]
	if s == nil {
		s = &SolverStats{PortfWin: map[string]int64{}}
		gStats.m[kind] = s
	}
	return s
}

type Solver struct {
	kind         string
	mode         int
	cmd          *exec.Cmd
	in           io.WriteCloser
	out          *bufio.Reader
	names        map[*Term]string
	vnames       map[string]bool
	script       []string
	fresh        int
	timeout      time.Duration
	approx       int // over-approximated operations (sound for unsat only)
	dead         bool
	st           *SolverStats
	usePortfolio bool
	oneShot      bool
	favorite     string
	stage        int
	pfCap        time.Duration
	varOrder     []string
	pfModel      map[string]uint64
}

func solverArgv(kind string) []string {
	switch kind {
	case "z3":
		return []string{"z3", "-in"}
	case "z3new":
		return []string{"z3-new", "-in"}
	case "cvc5":
		return []string{"cvc5", "--incremental", "--lang", "smt2", "--produce-models"}
	}
	panic("unknown solver " + kind)
}

func NewSolver(kind string, mode int, timeout time.Duration) *Solver {
	s := &Solver{kind: kind, mode: mode, timeout: timeout, st: statFor(kind)}
	if kind == "oneshot" {
		s.oneShot = true
		s.pfCap = timeout
	}
	s.spawn()
	return s
}

func (s *Solver) spawn() {
	if s.oneShot {
		return
	}
	argv := solverArgv(s.kind)
	s.cmd = exec.Command(argv[0], argv[1:]...)
	in, _ := s.cmd.StdinPipe()
	out, _ := s.cmd.StdoutPipe()
	s.cmd.Stderr = nil
	if err := s.cmd.Start(); err != nil {
		panic(err)
	}
	s.in = in
	s.out = bufio.NewReaderSize(out, 1<<16)
	s.dead = false
	s.preamble()
}

func (s *Solver) preamble() {
	if s.kind == "cvc5" {
		s.raw("(set-logic ALL)")
	}
	s.raw("(set-option :produce-models true)")
}

func (s *Solver) raw(cmd string) {
	if s.dead || s.oneShot {
		return
	}
	if _, err := io.WriteString(s.in, cmd+"\n"); err != nil {
		s.dead = true
	}
}

func (s *Solver) send(cmd string) {
	s.script = append(s.script, cmd)
	s.raw(cmd)
}

func (s *Solver) Close() {
	if s.oneShot {
		return
	}
	if s.cmd != nil && s.cmd.Process != nil {
		s.in.Close()
		s.cmd.Process.Kill()
		s.cmd.Wait()
	}
}

// Reset drops every declaration and assertion.
func (s *Solver) Reset() {
	s.names = map[*Term]string{}
	s.vnames = map[string]bool{}
	s.script = s.script[:0]
	s.fresh = 0
	s.varOrder = nil
	s.pfModel = nil
	if s.oneShot {
		return
	}
	if s.dead {
		s.Close()
		s.spawn()
		return
	}
	s.raw("(reset)")
	s.preamble()
}

func pow2(k int) string {
	return new(big.Int).Lsh(big.NewInt(1), uint(k)).String()
}

func ratOf(f float64) string {
	r := new(big.Rat)
	if r.SetFloat64(f) == nil {
		return "0.0"
	}
	neg := r.Sign() < 0
	if neg {
		r.Neg(r)
	}
	var x string
	if r.IsInt() {
		x = r.Num().String() + ".0"
	} else {
		x = "(/ " + r.Num().String() + ".0 " + r.Denom().String() + ".0)"
	}
	if neg {
		return "(- " + x + ")"
	}
	return x
}

func (s *Solver) sortStr(so Sort) string {
	switch so.K {
	case SBool:
		return "Bool"
	case SFloat:
		return "Real"
	}
	if s.mode == ModeInt {
		return "Int"
	}
	return fmt.Sprintf("(_ BitVec %d)", so.W)
}

func (s *Solver) freshName(p string) string {
	s.fresh++
	return fmt.Sprintf("%s!%d", p, s.fresh)
}

func quoteName(n string) string { return "|" + n + "|" }

// ref returns an SMT expression (a name or literal) denoting t, emitting
// declarations/definitions on first use.
func (s *Solver) ref(t *Term) string {
	if t.Op == OpConst {
		switch t.S.K {
		case SBool:
			if t.Val == 1 {
				return "true"
			}
			return "false"
		case SFloat:
			return ratOf(t.F)
		}
		if s.mode == ModeInt {
			return fmt.Sprintf("%d", t.Val)
		}
		return fmt.Sprintf("(_ bv%d %d)", t.Val, t.S.W)
	}
	if n, ok := s.names[t]; ok {
		return n
	}
	if t.Op == OpVar {
		n := quoteName(t.Name)
		if !s.vnames[t.Name] {
			s.vnames[t.Name] = true
			if t.S.K != SFloat {
				s.varOrder = append(s.varOrder, t.Name)
			}
			s.send(fmt.Sprintf("(declare-const %s %s)", n, s.sortStr(t.S)))
			if s.mode == ModeInt && t.S.K == SBV {
				s.send(fmt.Sprintf("(assert (and (<= 0 %s) (< %s %s)))", n, n, pow2(t.S.W)))
			}
		}
		s.names[t] = n
		return n
	}
	// iterative post-order to avoid deep recursion on long chains
	args := make([]string, len(t.Args))
	for i, a := range t.Args {
		args[i] = s.ref(a)
	}
	var body string
	if s.mode == ModeInt {
		body = s.bodyInt(t, args)
	} else {
		body = s.bodyBV(t, args)
	}
	if body == "" {
		// over-approximate with a fresh constant
		n := s.freshName("approx")
		s.approx++
		s.send(fmt.Sprintf("(declare-const %s %s)", n, s.sortStr(t.S)))
		if s.mode == ModeInt && t.S.K == SBV {
			s.send(fmt.Sprintf("(assert (and (<= 0 %s) (< %s %s)))", n, n, pow2(t.S.W)))
		}
		s.names[t] = n
		return n
	}
	n := s.freshName("t")
	s.send(fmt.Sprintf("(define-fun %s () %s %s)", n, s.sortStr(t.S), body))
	s.names[t] = n
	return n
}

func (s *Solver) bodyBV(t *Term, a []string) string {
	switch t.Op {
	case OpAdd, OpSub, OpMul, OpUDiv, OpSDiv, OpURem, OpSRem, OpAnd, OpOr, OpXor, OpShl, OpLShr, OpAShr,
		OpEq, OpUlt, OpUle, OpSlt, OpSle, OpBAnd, OpBOr:
		return fmt.Sprintf("(%s %s %s)", opNames[t.Op], a[0], a[1])
	case OpNot, OpNeg, OpBNot:
		return fmt.Sprintf("(%s %s)", opNames[t.Op], a[0])
	case OpIte:
		return fmt.Sprintf("(ite %s %s %s)", a[0], a[1], a[2])
	case OpZExt:
		return fmt.Sprintf("((_ zero_extend %d) %s)", t.S.W-t.Args[0].S.W, a[0])
	case OpSExt:
		return fmt.Sprintf("((_ sign_extend %d) %s)", t.S.W-t.Args[0].S.W, a[0])
	case OpExtract:
		return fmt.Sprintf("((_ extract %d %d) %s)", t.A, t.B, a[0])
	case OpConcat:
		return "(concat " + strings.Join(a, " ") + ")"
	case OpFLt:
		return fmt.Sprintf("(< %s %s)", a[0], a[1])
	case OpFLe:
		return fmt.Sprintf("(<= %s %s)", a[0], a[1])
	case OpFEq:
		return fmt.Sprintf("(= %s %s)", a[0], a[1])
	case OpFNeg:
		return fmt.Sprintf("(- %s)", a[0])
	case OpFFloor:
		return fmt.Sprintf("(to_real (to_int %s))", a[0])
	case OpFCeil:
		return fmt.Sprintf("(- (to_real (to_int (- %s))))", a[0])
	}
	// float arithmetic, int<->float conversions: unconstrained in BV mode
	return ""
}

func (s *Solver) sg(x string, w int) string {
	if len(x) > 0 && x[0] >= '0' && x[0] <= '9' {
		v := new(big.Int)
		if _, ok := v.SetString(x, 10); ok {
			half := new(big.Int).Lsh(big.NewInt(1), uint(w-1))
			if v.Cmp(half) < 0 {
				return x
			}
			v.Sub(v, new(big.Int).Lsh(big.NewInt(1), uint(w)))
			return "(- " + new(big.Int).Neg(v).String() + ")"
		}
	}
	return fmt.Sprintf("(ite (< %s %s) %s (- %s %s))", x, pow2(w-1), x, x, pow2(w))
}

// sgT is sg for a term: provably non-negative values need no reinterpretation.
func (s *Solver) sgT(t *Term, x string) string {
	if _, hi := ubounds(t); hi < uint64(1)<<uint(t.S.W-1) {
		return x
	}
	return s.sg(x, t.S.W)
}

func addNoWrap(t *Term) bool {
	_, h0 := ubounds(t.Args[0])
	_, h1 := ubounds(t.Args[1])
	return h0+h1 >= h0 && h0+h1 <= mask(t.S.W)
}

func mulNoWrapAny(t *Term) bool {
	_, h0 := ubounds(t.Args[0])
	_, h1 := ubounds(t.Args[1])
	hh, ll := bits.Mul64(h0, h1)
	return hh == 0 && ll <= mask(t.S.W)
}

const eps53 = "(/ 1.0 9007199254740992.0)"

// roundAxioms constrains r to be a correctly rounded float64 of the exact real q.
func (s *Solver) roundAxioms(r, q string) {
	// relative error
	s.send(fmt.Sprintf("(assert (let ((q %s)) (let ((aq (ite (>= q 0.0) q (- q)))) (and (<= (- %s q) (* %s aq)) (<= (- q %s) (* %s aq))))))", q, r, eps53, r, eps53))
	// monotone across representable integers (|q| < 2^53): floor(q) <= r <= floor(q)+1, exact on integers
	s.send(fmt.Sprintf("(assert (let ((q %s)) (=> (and (< q 9007199254740992.0) (> q (- 9007199254740992.0))) (and (>= %s (to_real (to_int q))) (<= %s (to_real (+ 1 (to_int q)))) (=> (= q (to_real (to_int q))) (= %s q))))))", q, r, r, r))
}

func (s *Solver) bodyInt(t *Term, a []string) string {
	w := t.S.W
	M := pow2(w)
	switch t.Op {
	case OpAdd:
		if addNoWrap(t) {
			return fmt.Sprintf("(+ %s %s)", a[0], a[1])
		}
		return fmt.Sprintf("(mod (+ %s %s) %s)", a[0], a[1], M)
	case OpSub:
		if l0, _ := ubounds(t.Args[0]); true {
			if _, h1 := ubounds(t.Args[1]); l0 >= h1 {
				return fmt.Sprintf("(- %s %s)", a[0], a[1])
			}
		}
		return fmt.Sprintf("(mod (- %s %s) %s)", a[0], a[1], M)
	case OpMul:
		if mulNoWrapAny(t) {
			return fmt.Sprintf("(* %s %s)", a[0], a[1])
		}
		return fmt.Sprintf("(mod (* %s %s) %s)", a[0], a[1], M)
	case OpUDiv:
		return fmt.Sprintf("(div %s %s)", a[0], a[1])
	case OpURem:
		return fmt.Sprintf("(mod %s %s)", a[0], a[1])
	case OpSDiv, OpSRem:
		x, y := s.sgT(t.Args[0], a[0]), s.sgT(t.Args[1], a[1])
		q := fmt.Sprintf("(let ((x %s) (y %s)) (ite (>= x 0) (ite (> y 0) (div x y) (- (div x (- y)))) (ite (> y 0) (- (div (- x) y)) (div (- x) (- y)))))", x, y)
		if t.Op == OpSDiv {
			return fmt.Sprintf("(mod %s %s)", q, M)
		}
		return fmt.Sprintf("(mod (- %s (* %s %s)) %s)", x, y, q, M)
	case OpAnd:
		for i := 0; i < 2; i++ {
			c := t.Args[i]
			if c.IsConst() && c.Val&(c.Val+1) == 0 { // 2^k-1
				k := 0
				for v := c.Val; v != 0; v >>= 1 {
					k++
				}
				return fmt.Sprintf("(mod %s %s)", a[1-i], pow2(k))
			}
		}
		return ""
	case OpOr, OpXor:
		return ""
	case OpShl:
		if t.Args[1].IsConst() {
			return fmt.Sprintf("(mod (* %s %s) %s)", a[0], pow2(int(t.Args[1].Val)), M)
		}
		return ""
	case OpLShr:
		if t.Args[1].IsConst() {
			return fmt.Sprintf("(div %s %s)", a[0], pow2(int(t.Args[1].Val)))
		}
		return ""
	case OpAShr:
		if t.Args[1].IsConst() {
			return fmt.Sprintf("(mod (div %s %s) %s)", s.sg(a[0], w), pow2(int(t.Args[1].Val)), M)
		}
		return ""
	case OpNot:
		return fmt.Sprintf("(- %s (+ 1 %s))", M, a[0])
	case OpNeg:
		return fmt.Sprintf("(mod (- %s) %s)", a[0], M)
	case OpEq, OpFEq:
		return fmt.Sprintf("(= %s %s)", a[0], a[1])
	case OpUlt, OpFLt:
		return fmt.Sprintf("(< %s %s)", a[0], a[1])
	case OpUle, OpFLe:
		return fmt.Sprintf("(<= %s %s)", a[0], a[1])
	case OpSlt:
		return fmt.Sprintf("(< %s %s)", s.sgT(t.Args[0], a[0]), s.sgT(t.Args[1], a[1]))
	case OpSle:
		return fmt.Sprintf("(<= %s %s)", s.sgT(t.Args[0], a[0]), s.sgT(t.Args[1], a[1]))
	case OpBAnd, OpBOr:
		return fmt.Sprintf("(%s %s %s)", opNames[t.Op], a[0], a[1])
	case OpBNot:
		return fmt.Sprintf("(not %s)", a[0])
	case OpIte:
		return fmt.Sprintf("(ite %s %s %s)", a[0], a[1], a[2])
	case OpZExt:
		return a[0]
	case OpSExt:
		if _, hi := ubounds(t.Args[0]); hi < uint64(1)<<uint(t.Args[0].S.W-1) {
			return a[0]
		}
		return fmt.Sprintf("(mod %s %s)", s.sg(a[0], t.Args[0].S.W), M)
	case OpExtract:
		return fmt.Sprintf("(mod (div %s %s) %s)", a[0], pow2(t.B), pow2(t.A-t.B+1))
	case OpConcat:
		e := a[0]
		for i := 1; i < len(a); i++ {
			e = fmt.Sprintf("(+ (* %s %s) %s)", e, pow2(t.Args[i].S.W), a[i])
		}
		return e
	case OpFNeg:
		return fmt.Sprintf("(- %s)", a[0])
	case OpFFloor:
		return fmt.Sprintf("(to_real (to_int %s))", a[0])
	case OpFCeil:
		return fmt.Sprintf("(- (to_real (to_int (- %s))))", a[0])
	case OpFAdd, OpFSub, OpFMul, OpFDiv:
		op := map[Op]string{OpFAdd: "+", OpFSub: "-", OpFMul: "*", OpFDiv: "/"}[t.Op]
		r := s.freshName("fl")
		s.send(fmt.Sprintf("(declare-const %s Real)", r))
		s.roundAxioms(r, fmt.Sprintf("(%s %s %s)", op, a[0], a[1]))
		s.names[t] = r
		return r // caller wraps in define-fun; harmless alias
	case OpI2F:
		v := a[0]
		if t.A == 1 {
			v = s.sgT(t.Args[0], a[0])
		}
		if _, hi := ubounds(t.Args[0]); hi <= 1<<53 {
			return fmt.Sprintf("(to_real %s)", v) // exact: |v| <= 2^53
		}
		// exact for |v| <= 2^53; otherwise a correctly rounded neighbour (relative error 2^-53)
		r := s.freshName("fl")
		s.send(fmt.Sprintf("(declare-const %s Real)", r))
		s.send(fmt.Sprintf("(assert (let ((q (to_real %s))) (let ((aq (ite (>= q 0.0) q (- q)))) (and (<= (- %s q) (* %s aq)) (<= (- q %s) (* %s aq))))))", v, r, eps53, r, eps53))
		return fmt.Sprintf("(let ((v %s)) (ite (and (<= v 9007199254740992) (>= v (- 9007199254740992))) (to_real v) %s))", v, r)
	case OpF2I:
		// in-range: truncation toward zero; out of range: unspecified
		u := s.freshName("f2i")
		s.send(fmt.Sprintf("(declare-const %s Int)", u))
		s.send(fmt.Sprintf("(assert (and (<= 0 %s) (< %s %s)))", u, u, M))
		tr := fmt.Sprintf("(ite (>= %s 0.0) (to_int %s) (- (to_int (- %s))))", a[0], a[0], a[0])
		var lo, hi string
		if t.A == 1 {
			lo, hi = "(- "+pow2(w-1)+")", pow2(w-1)
		} else {
			lo, hi = "0", M
		}
		return fmt.Sprintf("(let ((z %s)) (ite (and (<= %s z) (< z %s)) (mod z %s) %s))", tr, lo, hi, M, u)
	}
	return ""
}

func (s *Solver) Assert(t *Term) {
	if t.IsTrue() {
		return
	}
	s.send("(assert " + s.ref(t) + ")")
}

// readAnswer reads one line, with the wall clock watchdog.
func (s *Solver) readLine(deadline time.Duration) (string, bool) {
	type res struct {
		l   string
		err error
	}
	ch := make(chan res, 1)
	go func() {
		l, err := s.out.ReadString('\n')
		ch <- res{l, err}
	}()
	select {
	case r := <-ch:
		if r.err != nil {
			s.dead = true
			return "", false
		}
		return strings.TrimSpace(r.l), true
	case <-time.After(deadline):
		s.dead = true
		s.cmd.Process.Kill()
		<-ch
		s.cmd.Wait()
		return "", false
	}
}

// Check decides satisfiability of the asserted formulas plus (optionally) lit / not lit.
func (s *Solver) Check(lit *Term, neg bool) Result {
	t0 := time.Now()
	var cmd string
	if lit == nil {
		cmd = "(check-sat)"
	} else {
		r := s.ref(lit)
		if neg {
			r = "(not " + r + ")"
		}
		cmd = "(check-sat-assuming (" + r + "))"
	}
	atomic.AddInt64(&s.st.Queries, 1)
	res := Unknown
	s.pfModel = nil
	if s.oneShot {
		res = s.portfolio(cmd)
		atomic.AddInt64(&s.st.WallNs, int64(time.Since(t0)))
		if d := os.Getenv("SYMGO_DUMP_SLOW"); d != "" && time.Since(t0) > 3*time.Second {
			n := atomic.AddInt64(&dumpN, 1)
			os.WriteFile(fmt.Sprintf("%s/slow%03d_%s_%ds.smt2", d, n, res, int(time.Since(t0).Seconds())), []byte("(set-logic ALL)\n"+strings.Join(s.script, "\n")+"\n"+cmd+"\n"), 0o644)
		}
		if d := os.Getenv("SYMGO_DUMP_UNKNOWN"); d != "" && res == Unknown {
			n := atomic.AddInt64(&dumpN, 1)
			os.WriteFile(fmt.Sprintf("%s/q%03d.smt2", d, n), []byte(strings.Join(s.script, "\n")+"\n"+cmd+"\n"), 0o644)
		}
		switch res {
		case Sat:
			atomic.AddInt64(&s.st.Sat, 1)
		case Unsat:
			atomic.AddInt64(&s.st.Unsat, 1)
		default:
			atomic.AddInt64(&s.st.Unknown, 1)
		}
		return res
	}
	if s.dead {
		s.respawnReplay()
	}
	s.raw(cmd)
	line, ok := s.readLine(s.timeout)
	for ok && line == "" {
		line, ok = s.readLine(s.timeout)
	}
	if !ok {
		// no answer within the cap (the solver process was killed): a loaded machine makes 10 s queries out of
		// 50 ms ones, so retry once in a fresh process with four times the cap before calling it unknown
		atomic.AddInt64(&s.st.Retries, 1)
		s.respawnReplay()
		s.raw(cmd)
		line, ok = s.readLine(4 * s.timeout)
		for ok && line == "" {
			line, ok = s.readLine(4 * s.timeout)
		}
	}
	if ok {
		switch {
		case line == "sat":
			res = Sat
		case line == "unsat":
			res = Unsat
		case strings.Contains(line, "error"):
			atomic.AddInt64(&s.st.Errors, 1)
			fmt.Fprintf(os.Stderr, "solver %s error: %s\n", s.kind, line)
			if os.Getenv("SYMGO_DUMP") != "" {
				os.WriteFile(os.Getenv("SYMGO_DUMP"), []byte(strings.Join(s.script, "\n")+"\n"+cmd+"\n"), 0o644)
			}
		}
	}
	atomic.AddInt64(&s.st.WallNs, int64(time.Since(t0)))
	if d := os.Getenv("SYMGO_DUMP_UNKNOWN"); d != "" && res == Unknown {
		n := atomic.AddInt64(&dumpN, 1)
		os.WriteFile(fmt.Sprintf("%s/q%03d.smt2", d, n), []byte(strings.Join(s.script, "\n")+"\n"+cmd+"\n"), 0o644)
	}
	if res == Unknown && s.usePortfolio {
		res = s.portfolio(cmd)
	}
	switch res {
	case Sat:
		atomic.AddInt64(&s.st.Sat, 1)
	case Unsat:
		atomic.AddInt64(&s.st.Unsat, 1)
	default:
		atomic.AddInt64(&s.st.Unknown, 1)
	}
	return res
}

func (s *Solver) respawnReplay() {
	s.Close()
	s.spawn()
	for _, c := range s.script {
		s.raw(c)
	}
}

// portfolio runs the whole script one-shot on all three solvers; first definite answer wins.
func (s *Solver) portfolio(cmd string) Result {
	atomic.AddInt64(&s.st.Portf, 1)
	text := "(set-logic ALL)\n(set-option :produce-models true)\n" + strings.Join(s.script, "\n") + "\n" + cmd + "\n"
	if len(s.varOrder) > 0 {
		var qn []string
		for _, n := range s.varOrder {
			qn = append(qn, quoteName(n))
		}
		text += "(get-value (" + strings.Join(qn, " ") + "))\n"
	}
	order := append([]string(nil), s.varOrder...)
	f, err := os.CreateTemp("", "symgo-pf-*.smt2")
	if err != nil {
		return Unknown
	}
	defer os.Remove(f.Name())
	f.WriteString(text)
	f.Close()
	type ans struct {
		k string
		r Result
		m map[string]uint64
	}
	portfolioCap := portfolioCap
	if s.pfCap > 0 {
		portfolioCap = s.pfCap
	}
	mk := func(capd time.Duration) [][]string {
		secs := int(capd.Seconds())
		if secs < 1 {
			secs = 1
		}
		return [][]string{{"z3", "z3", "-T:" + fmt.Sprint(secs), f.Name()}, {"z3new", "z3-new", "-T:" + fmt.Sprint(secs), f.Name()},
			{"cvc5", "cvc5", "--lang", "smt2", "--tlimit=" + fmt.Sprint(capd.Milliseconds()), f.Name()}}
	}
	kinds := mk(portfolioCap)
	// head start for the solver that answered last time (avoids starving it with two hopeless runs)
	if s.favorite != "" && s.stage == 0 {
		head := 4 * time.Second
		if head > portfolioCap {
			head = portfolioCap
		}
		for _, k := range mk(head) {
			if k[0] == s.favorite {
				kinds = [][]string{k}
			}
		}
	}
	ch := make(chan ans, len(kinds))
	var cmds []*exec.Cmd
	for _, k := range kinds {
		c := exec.Command(k[1], k[2:]...)
		cmds = append(cmds, c)
		go func(k string, c *exec.Cmd) {
			t0 := time.Now()
			out, _ := c.Output()
			st := statFor("portfolio:" + k)
			atomic.AddInt64(&st.Queries, 1)
			atomic.AddInt64(&st.WallNs, int64(time.Since(t0)))
			r := Unknown
			o := string(out)
			for _, l := range strings.Split(o, "\n") {
				l = strings.TrimSpace(l)
				if strings.Contains(l, "(error") || strings.Contains(l, "rror:") {
					break // an error before the verdict makes it inconclusive
				}
				if l == "sat" {
					r = Sat
					break
				} else if l == "unsat" {
					r = Unsat
					break
				} else if l == "unknown" || l == "timeout" {
					break
				}
			}
			var m map[string]uint64
			if r == Sat {
				if i := strings.Index(o, "sat"); i >= 0 {
					vals, ok := parseGetValue(o[i+3:], len(order))
					if ok {
						m = map[string]uint64{}
						for j, n := range order {
							m[n] = vals[j]
						}
					}
				}
			}
			ch <- ans{k, r, m}
		}(k[0], c)
	}
	final := Unknown
	winner := ""
	got := 0
	conflict := false
	for got < len(kinds) {
		a := <-ch
		got++
		if a.r != Unknown {
			if final == Unknown {
				final = a.r
				winner = a.k
				s.pfModel = a.m
				st := statFor("portfolio:" + a.k)
				gStats.Lock()
				st.PortfWin[a.r.String()]++
				gStats.Unlock()
				// kill the others
				for _, c := range cmds {
					if c.Process != nil {
						c.Process.Kill()
					}
				}
			} else if final != a.r {
				conflict = true
			}
		}
	}
	if conflict {
		fmt.Fprintln(os.Stderr, "ENGINE ERROR: solver disagreement in portfolio")
		atomic.AddInt64(&gSolverConflicts, 1)
		return Unknown
	}
	if final == Unknown && len(kinds) == 1 {
		// the favourite alone did not answer within its head start: full portfolio
		s.stage = 1
		r := s.portfolio(cmd)
		s.stage = 0
		return r
	}
	if final != Unknown {
		s.favorite = winner
	}
	return final
}

var portfolioCap = 60 * time.Second
var gSolverConflicts int64
var dumpN int64

// GetValues returns model values of named variables after a sat answer from the
// resident solver (not the portfolio).
func (s *Solver) GetValues(vars []*Term) (map[string]uint64, bool) {
	out := map[string]uint64{}
	if len(vars) == 0 {
		return out, true
	}
	if s.pfModel != nil {
		for _, v := range vars {
			out[v.Name] = s.pfModel[v.Name]
		}
		return out, true
	}
	var names []string
	for _, v := range vars {
		names = append(names, s.ref(v))
	}
	s.raw("(get-value (" + strings.Join(names, " ") + "))")
	// read balanced s-expression
	var sb strings.Builder
	depth := 0
	started := false
	for {
		line, ok := s.readLine(s.timeout)
		if !ok {
			return nil, false
		}
		if strings.Contains(line, "(error") {
			return nil, false
		}
		sb.WriteString(line)
		sb.WriteString(" ")
		for _, c := range line {
			if c == '(' {
				depth++
				started = true
			} else if c == ')' {
				depth--
			}
		}
		if started && depth == 0 {
			break
		}
	}
	vals, ok := parseGetValue(sb.String(), len(vars))
	if !ok {
		return nil, false
	}
	for i, v := range vars {
		out[v.Name] = vals[i]
	}
	return out, true
}

func parseGetValue(text string, n int) ([]uint64, bool) {
	toks := tokenize(text)
	// ( ( name value ) ( name value ) ... )
	pos := 0
	for pos < len(toks) && toks[pos] != "(" {
		pos++
	}
	pos++
	var vals []uint64
	for i := 0; i < n; i++ {
		if pos >= len(toks) || toks[pos] != "(" {
			return nil, false
		}
		pos += 2 // "(" name
		v, np, ok := parseValue(toks, pos)
		if !ok {
			return nil, false
		}
		pos = np
		if pos >= len(toks) || toks[pos] != ")" {
			return nil, false
		}
		pos++
		vals = append(vals, v)
	}
	return vals, true
}

func tokenize(s string) []string {
	var toks []string
	i := 0
	for i < len(s) {
		c := s[i]
		switch {
		case c == '(' || c == ')':
			toks = append(toks, string(c))
			i++
		case c == ' ' || c == '\n' || c == '\t' || c == '\r':
			i++
		case c == '|':
			j := i + 1
			for j < len(s) && s[j] != '|' {
				j++
			}
			toks = append(toks, s[i:j+1])
			i = j + 1
		default:
			j := i
			for j < len(s) && s[j] != '(' && s[j] != ')' && s[j] != ' ' && s[j] != '\n' {
				j++
			}
			toks = append(toks, s[i:j])
			i = j
		}
	}
	return toks
}

func parseValue(toks []string, pos int) (uint64, int, bool) {
	t := toks[pos]
	switch {
	case t == "true":
		return 1, pos + 1, true
	case t == "false":
		return 0, pos + 1, true
	case strings.HasPrefix(t, "#x"):
		var v uint64
		fmt.Sscanf(t[2:], "%x", &v)
		return v, pos + 1, true
	case strings.HasPrefix(t, "#b"):
		var v uint64
		for _, c := range t[2:] {
			v = v<<1 | uint64(c-'0')
		}
		return v, pos + 1, true
	case t == "(":
		// (_ bvN w) or (- N)
		if toks[pos+1] == "_" && strings.HasPrefix(toks[pos+2], "bv") {
			var v uint64
			fmt.Sscanf(toks[pos+2][2:], "%d", &v)
			return v, pos + 5, true
		}
		if toks[pos+1] == "-" {
			var v uint64
			fmt.Sscanf(toks[pos+2], "%d", &v)
			return -v, pos + 4, true
		}
		return 0, pos, false
	default:
		var v uint64
		if _, err := fmt.Sscanf(t, "%d", &v); err != nil {
			return 0, pos, false
		}
		return v, pos + 1, true
	}
}
