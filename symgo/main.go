package main

import (
	"encoding/json"
	"flag"
	"fmt"
	"go/token"
	"go/types"
	"os"
	"path/filepath"
	"runtime"
	"runtime/pprof"
	"sort"
	"strings"
	"sync"
	"time"

	"golang.org/x/tools/go/packages"
	"golang.org/x/tools/go/ssa"
	"golang.org/x/tools/go/ssa/ssautil"
)

// repoDir is the tree under analysis. Registered commands always use /repo; VERIF_REPO redirects it for development
// runs against a scratch worktree (seeded changes), in which case evidence and replay files go to VERIF_OUT.
var repoDir = "/repo"

// outDir is where evidence/ and replay/ are written (verifDir unless VERIF_REPO is set).
var outDir = ""

const modPath = "github.com/drand/drand/v2"

var verifDir = "/verif"

type TierCfg struct {
	Params   map[string]int64   `json:"params,omitempty"`
	MaxPaths int                `json:"max_paths,omitempty"`
	MaxSteps int64              `json:"max_steps,omitempty"`
	TimeoutS int                `json:"query_timeout_s,omitempty"`
	Skip     bool               `json:"skip,omitempty"`
	Variants []map[string]int64 `json:"variants,omitempty"`
}

type PropHarness struct {
	Name         string             `json:"name"`
	Pkg          string             `json:"pkg"`
	Func         string             `json:"func"`
	Arith        string             `json:"arith,omitempty"`
	Portfolio    bool               `json:"portfolio,omitempty"`
	SelectChoice bool               `json:"select_choice,omitempty"`
	Solver       string             `json:"solver,omitempty"`
	Preemptions  int                `json:"preemptions,omitempty"`
	Tiers        map[string]TierCfg `json:"tiers"`
	Doc          string             `json:"doc,omitempty"`
	Replay       string             `json:"replay,omitempty"` // "native" (default) | "none"
}

type PropCfg struct {
	Property    string                 `json:"property"`
	Harnesses   []PropHarness          `json:"harnesses"`
	Assumptions []string               `json:"assumptions"`
	TrustedBase []string               `json:"trusted_base"`
	Explanation string                 `json:"explanation"`
	Outside     []string               `json:"outside_the_claim"`
	Bounds      map[string]interface{} `json:"bounds,omitempty"`
	Overrides   []Override             `json:"overrides,omitempty"`
}

// Override is a textual edit applied to a file read from /repo before loading (e.g. scaling one constant);
// the rest of the file is the tree's. Recorded as a bound in the evidence.
type Override struct {
	File string `json:"file"`
	Old  string `json:"old"`
	New  string `json:"new"`
}

var activeOverrides []Override

// overrideFiles returns virtual path -> modified content for the active overrides.
func overrideFiles() (map[string][]byte, error) {
	out := map[string][]byte{}
	for _, o := range activeOverrides {
		path := filepath.Join(repoDir, o.File)
		b, ok := out[path]
		if !ok {
			var err error
			b, err = os.ReadFile(path)
			if err != nil {
				return nil, err
			}
		}
		if !strings.Contains(string(b), o.Old) {
			return nil, fmt.Errorf("override: %q not found in %s (the source changed: update the override)", o.Old, o.File)
		}
		out[path] = []byte(strings.Replace(string(b), o.Old, o.New, 1))
	}
	return out, nil
}

// overlayFiles maps /verif/harness/<rel> -> /repo/<rel>
func overlayFiles(includeTests bool) map[string]string {
	out := map[string]string{}
	root := filepath.Join(verifDir, "harness")
	filepath.Walk(root, func(path string, info os.FileInfo, err error) error {
		if err != nil || info.IsDir() || !strings.HasSuffix(path, ".go") {
			return nil
		}
		if strings.HasSuffix(path, "_test.go") && !includeTests {
			return nil
		}
		rel, _ := filepath.Rel(root, path)
		out[filepath.Join(repoDir, rel)] = path
		return nil
	})
	return out
}

func loadProgram(patterns []string) (*ssa.Program, []*packages.Package, error) {
	ov := map[string][]byte{}
	for virt, real := range overlayFiles(false) {
		b, err := os.ReadFile(real)
		if err != nil {
			return nil, nil, err
		}
		ov[virt] = b
	}
	ovr, err := overrideFiles()
	if err != nil {
		return nil, nil, err
	}
	for virt, b := range ovr {
		ov[virt] = b
	}
	env := append(os.Environ(), "GOFLAGS=-mod=mod", "GOPROXY=off")
	cfg := &packages.Config{Mode: packages.LoadAllSyntax, Dir: repoDir, Env: env, Overlay: ov, Fset: token.NewFileSet()}
	pkgs, err := packages.Load(cfg, patterns...)
	if err != nil {
		return nil, nil, err
	}
	nerr := 0
	packages.Visit(pkgs, nil, func(p *packages.Package) {
		for _, e := range p.Errors {
			if nerr < 20 {
				fmt.Fprintln(os.Stderr, "load error:", e)
			}
			nerr++
		}
	})
	if nerr > 0 {
		return nil, nil, fmt.Errorf("%d package load errors", nerr)
	}
	prog, _ := ssautil.AllPackages(pkgs, ssa.InstantiateGenerics)
	prog.Build()
	return prog, pkgs, nil
}

func (e *Engine) nativeT(kind string) types.Type {
	if t, ok := e.natTypes[kind]; ok {
		return t
	}
	tn := types.NewTypeName(token.NoPos, nil, "native·"+kind, nil)
	t := types.NewNamed(tn, types.NewStruct(nil, nil), nil)
	e.natTypes[kind] = t
	return t
}

func newEngine(prog *ssa.Program) *Engine {
	e := &Engine{prog: prog, pkgByPath: map[string]*ssa.Package{}, natTypes: map[string]types.Type{}}
	for _, p := range prog.AllPackages() {
		e.pkgByPath[p.Pkg.Path()] = p
	}
	e.errorType = types.Universe.Lookup("error").Type()
	for _, k := range []string{"opaque", "error", "hash", "ctx", "runtime.Error"} {
		e.nativeT(k)
	}
	e.opaqueT = e.nativeT("opaque")
	e.runtimeErrType = e.nativeT("runtime.Error")
	if tp := e.pkgByPath["time"]; tp != nil {
		e.timeType = tp.Pkg.Scope().Lookup("Time").Type()
	}
	return e
}

func main() {
	if len(os.Args) < 2 {
		fmt.Fprintln(os.Stderr, "usage: symgo run|replay ...")
		os.Exit(2)
	}
	if r := os.Getenv("VERIF_REPO"); r != "" && r != repoDir {
		repoDir = r
		outDir = os.Getenv("VERIF_OUT")
		if outDir == "" {
			outDir = filepath.Join(os.TempDir(), "verif-out"+strings.ReplaceAll(r, "/", "_"))
		}
		os.MkdirAll(outDir, 0o755)
		fmt.Fprintf(os.Stderr, "symgo: development run against %s, output under %s\n", repoDir, outDir)
	}
	if pf := os.Getenv("SYMGO_CPUPROFILE"); pf != "" {
		f, err := os.Create(pf)
		if err == nil {
			pprof.StartCPUProfile(f)
			code := 0
			if os.Args[1] == "run" {
				code = cmdRun(os.Args[2:])
			}
			pprof.StopCPUProfile()
			f.Close()
			os.Exit(code)
		}
	}
	switch os.Args[1] {
	case "run":
		os.Exit(cmdRun(os.Args[2:]))
	case "tracepath":
		os.Exit(cmdTracePath(os.Args[2:]))
	case "replay":
		os.Exit(cmdReplay(os.Args[2:]))
	default:
		fmt.Fprintln(os.Stderr, "unknown command")
		os.Exit(2)
	}
}

func cmdRun(args []string) int {
	fs := flag.NewFlagSet("run", flag.ExitOnError)
	prop := fs.String("prop", "", "property id")
	tier := fs.String("tier", "quick", "quick|thorough")
	only := fs.String("only", "", "run only this harness")
	workers := fs.Int("workers", 0, "parallel workers")
	verbose := fs.Bool("v", false, "verbose")
	noReplay := fs.Bool("no-replay", false, "skip native replay of counterexamples")
	vdir := fs.String("verif", "/verif", "verif dir")
	fs.Parse(args)
	verifDir = *vdir
	if outDir == "" {
		outDir = verifDir
	}
	t0 := time.Now()
	seed := int64(0)
	if s := os.Getenv("VERIF_SEED"); s != "" {
		fmt.Sscan(s, &seed)
	}
	var cfg PropCfg
	b, err := os.ReadFile(filepath.Join(verifDir, "props", *prop+".json"))
	if err != nil {
		fmt.Fprintln(os.Stderr, err)
		return 3
	}
	if err := json.Unmarshal(b, &cfg); err != nil {
		fmt.Fprintln(os.Stderr, "props json:", err)
		return 3
	}
	activeOverrides = cfg.Overrides
	pkgSet := map[string]bool{}
	for _, h := range cfg.Harnesses {
		pkgSet[h.Pkg] = true
	}
	var patterns []string
	for p := range pkgSet {
		patterns = append(patterns, p)
	}
	sort.Strings(patterns)
	prog, _, err := loadProgram(patterns)
	if err != nil {
		fmt.Fprintln(os.Stderr, "load:", err)
		return 3
	}
	loadS := time.Since(t0).Seconds()
	eng := newEngine(prog)
	eng.workers = *workers
	if eng.workers == 0 {
		eng.workers = runtime.NumCPU()
		if w := os.Getenv("SYMGO_WORKERS"); w != "" {
			fmt.Sscan(w, &eng.workers)
			if eng.workers < 1 {
				eng.workers = 1
			}
		}
	}
	eng.seed = seed
	eng.verbose = *verbose

	var results []*HarnessResult
	var hcfgs []PropHarness
	inconclusive := []string{}
	for _, ph := range cfg.Harnesses {
		if *only != "" && ph.Name != *only {
			continue
		}
		tc, ok := ph.Tiers[*tier]
		if !ok {
			if *tier == "thorough" {
				tc, ok = ph.Tiers["quick"]
			}
			if !ok {
				continue
			}
		}
		if tc.Skip {
			continue
		}
		pkg := eng.pkgByPath[ph.Pkg]
		if pkg == nil {
			inconclusive = append(inconclusive, "package not loaded: "+ph.Pkg)
			continue
		}
		fn := pkg.Func(ph.Func)
		if fn == nil {
			inconclusive = append(inconclusive, "harness function not found: "+ph.Func)
			continue
		}
		variants := tc.Variants
		if len(variants) == 0 {
			variants = []map[string]int64{nil}
		}
		for vi, vr := range variants {
			params := map[string]int64{}
			for k, v := range tc.Params {
				params[k] = v
			}
			for k, v := range vr {
				params[k] = v
			}
			name := ph.Name
			if len(variants) > 1 {
				name = fmt.Sprintf("%s#%d", ph.Name, vi)
			}
			h := &Harness{HarnessCfg: HarnessCfg{Name: name, Pkg: ph.Pkg, Func: ph.Func, Params: params,
				MaxPaths: tc.MaxPaths, MaxSteps: tc.MaxSteps, TimeoutS: tc.TimeoutS, Portfolio: ph.Portfolio, SelectChoice: ph.SelectChoice, Solver: ph.Solver, Preemptions: ph.Preemptions}, Fn: fn}
			if h.MaxPaths == 0 {
				h.MaxPaths = 20000
			}
			if h.MaxSteps == 0 {
				h.MaxSteps = 2000000
			}
			if ph.Arith == "int" {
				h.Arith = ModeInt
			}
			res := eng.RunHarness(h)
			results = append(results, res)
			hcfgs = append(hcfgs, ph)
		}
	}
	return report(&cfg, *tier, seed, results, hcfgs, inconclusive, loadS, time.Since(t0).Seconds(), *noReplay)
}

// cmdReplay replays one recorded counterexample against the natively compiled code of /repo's current tree
// (`./check <prop> --replay <file>`): exit 1 + VIOLATION line when it reproduces, 0 when it does not.
func cmdReplay(args []string) int {
	fs := flag.NewFlagSet("replay", flag.ExitOnError)
	prop := fs.String("prop", "", "property id")
	file := fs.String("file", "", "counterexample json")
	vdir := fs.String("verif", "/verif", "verif dir")
	verbose := fs.Bool("v", false, "print the native output")
	fs.Parse(args)
	verifDir = *vdir
	var cfg PropCfg
	b, err := os.ReadFile(filepath.Join(verifDir, "props", *prop+".json"))
	if err != nil || json.Unmarshal(b, &cfg) != nil {
		fmt.Println("INCONCLUSIVE: cannot read props for", *prop)
		return 3
	}
	activeOverrides = cfg.Overrides
	var cex CounterEx
	b, err = os.ReadFile(*file)
	if err != nil || json.Unmarshal(b, &cex) != nil {
		fmt.Println("INCONCLUSIVE: cannot read counterexample", *file)
		return 3
	}
	for _, ph := range cfg.Harnesses {
		if ph.Name != baseHarnessName(strings.ReplaceAll(cex.Harness, "_", "#")) && ph.Name != baseHarnessName(cex.Harness) {
			continue
		}
		if ph.Replay == "engine" {
			fmt.Printf("replay mode of harness %s is 'engine' (schedule / crash point inside a model): use `symgo tracepath -prop %s -file %s`\n", ph.Name, *prop, *file)
			return 3
		}
		abs, _ := filepath.Abs(*file)
		ro := nativeReplay(&cex, ph, abs)
		if *verbose {
			fmt.Println(ro.Output)
		}
		fmt.Printf("native result: %s\n", ro.Result)
		if ro.Reproduced {
			fmt.Printf("VIOLATION property=%s replay=%s\n", *prop, abs)
			return 1
		}
		fmt.Println("not reproduced on the current tree")
		return 0
	}
	fmt.Println("INCONCLUSIVE: harness of the counterexample not found:", cex.Harness)
	return 3
}

// cmdTracePath re-executes the single path of a recorded counterexample with call/log tracing.
func cmdTracePath(args []string) int {
	fs := flag.NewFlagSet("tracepath", flag.ExitOnError)
	prop := fs.String("prop", "", "property id")
	file := fs.String("file", "", "counterexample json")
	tier := fs.String("tier", "quick", "tier the counterexample came from")
	fs.Parse(args)
	var cfg PropCfg
	b, _ := os.ReadFile(filepath.Join(verifDir, "props", *prop+".json"))
	if err := json.Unmarshal(b, &cfg); err != nil {
		fmt.Println(err)
		return 3
	}
	activeOverrides = cfg.Overrides
	var cex CounterEx
	b, _ = os.ReadFile(*file)
	if err := json.Unmarshal(b, &cex); err != nil {
		fmt.Println(err)
		return 3
	}
	for _, ph := range cfg.Harnesses {
		if ph.Name != baseHarnessName(cex.Harness) {
			continue
		}
		prog, _, err := loadProgram([]string{ph.Pkg})
		if err != nil {
			fmt.Println(err)
			return 3
		}
		eng := newEngine(prog)
		eng.workers = 1
		eng.traceOn = true
		fn := eng.pkgByPath[ph.Pkg].Func(ph.Func)
		h := &Harness{HarnessCfg: HarnessCfg{Name: cex.Harness, Pkg: ph.Pkg, Func: ph.Func, Params: cex.Params, MaxPaths: 1, MaxSteps: 5000000, SelectChoice: ph.SelectChoice, Preemptions: ph.Preemptions}, Fn: fn}
		if ph.Arith == "int" {
			h.Arith = ModeInt
		}
		_ = tier
		res := &HarnessResult{Name: h.Name, Unsupported: map[string]int64{}, Asserts: map[string]*AssertStat{}, Reached: map[string]int64{}, Funcs: map[string]bool{}, Stubs: map[string]int64{}}
		var mu sync.Mutex
		sk := ph.Solver
		if sk == "" {
			sk = "z3"
		}
		sol := NewSolver(sk, h.Arith, 20*time.Second)
		eng.runPath(h, workItem{prefix: cex.Decisions}, sol, res, &mu)
		os.WriteFile("/tmp/tracepath.smt2", []byte(strings.Join(sol.script, "\n")+"\n(check-sat)\n"), 0o644)
		for id, st := range res.Asserts {
			fmt.Printf("assert %s: checked=%d violated=%d\n", id, st.Checked, st.Violated)
		}
		fmt.Println("unsupported:", res.Unsupported)
		return 0
	}
	return 3
}
