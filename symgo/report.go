package main

import (
	"encoding/json"
	"fmt"
	"os"
	"os/exec"
	"path/filepath"
	"sort"
	"strings"
	"sync/atomic"
	"time"
)

type KnownFinding struct {
	Property      string `json:"property"`
	Harness       string `json:"harness"`
	Assert        string `json:"assert"`
	Discriminator string `json:"discriminator"`
	What          string `json:"what"`
	Status        string `json:"status"` // "known" | "fixed"
	Commit        string `json:"commit,omitempty"`
}

type KnownFile struct {
	Version  int            `json:"version"`
	Findings []KnownFinding `json:"findings"`
}

func loadKnown() []KnownFinding {
	b, err := os.ReadFile(filepath.Join(verifDir, "known_findings.json"))
	if err != nil {
		return nil
	}
	var kf KnownFile
	if json.Unmarshal(b, &kf) != nil {
		return nil
	}
	return kf.Findings
}

type replayOutcome struct {
	Reproduced bool
	Result     string
	Output     string
}

func baseHarnessName(n string) string {
	if i := strings.IndexByte(n, '#'); i >= 0 {
		return n[:i]
	}
	return n
}

// nativeReplay runs the harness natively (real code, compiled) on the counterexample inputs.
func nativeReplay(cex *CounterEx, ph PropHarness, file string) replayOutcome {
	tmp, err := os.MkdirTemp("", "symgo-replay-*")
	if err != nil {
		return replayOutcome{Result: "error: " + err.Error()}
	}
	defer os.RemoveAll(tmp)
	repl := overlayFiles(true)
	if ovr, err := overrideFiles(); err == nil {
		i := 0
		for virt, content := range ovr {
			f := filepath.Join(tmp, fmt.Sprintf("override%d.go", i))
			i++
			os.WriteFile(f, content, 0o644)
			repl[virt] = f
		}
	}
	ov := map[string]map[string]string{"Replace": repl}
	ob, _ := json.Marshal(ov)
	ovf := filepath.Join(tmp, "overlay.json")
	os.WriteFile(ovf, ob, 0o644)
	bin := filepath.Join(tmp, "replay.test")
	env := append(os.Environ(), "GOFLAGS=-mod=mod", "GOPROXY=off", "ZZVERIF_REPLAY="+file, "ZZVERIF_FUNC="+ph.Func, "GOCACHE="+goCache())
	build := exec.Command("go", "test", "-c", "-vet=off", "-overlay", ovf, "-o", bin, ph.Pkg)
	build.Dir = repoDir
	build.Env = env
	if bout, err := build.CombinedOutput(); err != nil {
		return replayOutcome{Result: "build-error", Output: tail(string(bout), 3000)}
	}
	attempts := 1
	if cex.RandomOrder {
		attempts = 12
	}
	var ro replayOutcome
	for i := 0; i < attempts; i++ {
		ro = runReplayBinary(cex, bin, tmp, env)
		if ro.Reproduced || ro.Result != "ok" {
			break
		}
	}
	if cex.RandomOrder && ro.Reproduced {
		ro.Result += " (random peer order: one of up to 12 native runs)"
	}
	return ro
}

func runReplayBinary(cex *CounterEx, bin, tmp string, env []string) replayOutcome {
	cmd := exec.Command(bin, "-test.run", "^TestZZReplay$", "-test.v", "-test.timeout", "120s")
	cmd.Dir = tmp
	cmd.Env = env
	out, _ := cmd.CombinedOutput()
	o := string(out)
	res := "no-result"
	for _, l := range strings.Split(o, "\n") {
		if i := strings.Index(l, "ZZVERIF-RESULT "); i >= 0 {
			res = strings.TrimSpace(l[i+len("ZZVERIF-RESULT "):])
		}
	}
	if res == "no-result" && (strings.Contains(o, "\npanic: ") || strings.HasPrefix(o, "panic: ") || strings.Contains(o, "fatal error: ")) {
		// the test binary died: a panic in a goroutine nobody recovers (or a runtime fatal error) kills the process
		// before the harness can print its verdict
		res = "panic: process died"
	}
	ro := replayOutcome{Result: res, Output: tail(o, 3000)}
	switch {
	case cex.Assert == "engine:no_deadlock":
		ro.Reproduced = strings.HasPrefix(res, "blocked")
	case cex.Assert == "engine:no_crash":
		ro.Reproduced = strings.HasPrefix(res, "panic") || strings.HasPrefix(res, "fatal")
	default:
		ro.Reproduced = res == "violated="+cex.Assert
	}
	return ro
}

func goCache() string {
	if c := os.Getenv("GOCACHE"); c != "" {
		return c
	}
	out, err := exec.Command("go", "env", "GOCACHE").Output()
	if err == nil {
		return strings.TrimSpace(string(out))
	}
	return ""
}

func tail(s string, n int) string {
	if len(s) <= n {
		return s
	}
	return s[len(s)-n:]
}

func report(cfg *PropCfg, tier string, seed int64, results []*HarnessResult, hcfgs []PropHarness, inconclusive []string, loadS, wallS float64, noReplay bool) int {
	t0 := time.Now()
	known := loadKnown()
	exit := 0
	var violationsOut []string
	var knownOut []string
	var unconfirmed []map[string]interface{}
	confirmed := 0
	knownSeen := []string{}

	var evals, obligations, discharged, distinct, paths int64
	funcs := map[string]bool{}
	stubs := map[string]int64{}
	var samples []interface{}
	perHarness := []map[string]interface{}{}
	reachWitness := int64(0)
	replayDir := filepath.Join(outDir, "replay", cfg.Property)
	os.MkdirAll(replayDir, 0o755)
	// clean stale replay files of this property
	if ents, err := os.ReadDir(replayDir); err == nil {
		for _, e := range ents {
			if strings.HasSuffix(e.Name(), ".json") && !strings.HasPrefix(e.Name(), "keep-") {
				os.Remove(filepath.Join(replayDir, e.Name()))
			}
		}
	}

	for i, r := range results {
		ph := hcfgs[i]
		paths += r.Paths
		distinct += r.PathsWithAssert
		reachWitness += r.Witnesses
		for f := range r.Funcs {
			funcs[f] = true
		}
		for s, n := range r.Stubs {
			stubs[s] += n
		}
		for _, s := range r.Samples {
			if len(samples) < 8 {
				samples = append(samples, s)
			}
		}
		hsum := map[string]interface{}{"harness": r.Name, "func": ph.Func, "pkg": ph.Pkg, "paths": r.Paths, "completed": r.Completed, "infeasible": r.Infeasible,
			"budget_exceeded": r.Budget, "unsupported": r.Unsupported, "steps": r.Steps, "wall_s": r.WallS, "max_paths_hit": r.MaxPathsHit,
			"unknown_forks": r.UnknownForks, "approximated_terms": r.Approx, "deadlocks": r.Deadlocks}
		asum := map[string]interface{}{}
		ids := []string{}
		for id := range r.Asserts {
			ids = append(ids, id)
		}
		sort.Strings(ids)
		for _, id := range ids {
			st := r.Asserts[id]
			obligations += st.Checked
			discharged += st.Discharged
			asum[id] = map[string]int64{"checked": st.Checked, "discharged": st.Discharged, "violated": st.Violated, "unknown": st.Unknown, "trivially_true": st.Trivial}
			if st.Unknown > 0 {
				inconclusive = append(inconclusive, fmt.Sprintf("%s: %d unknown verdicts for assert %s", r.Name, st.Unknown, id))
			}
		}
		hsum["asserts"] = asum
		perHarness = append(perHarness, hsum)
		if len(r.Unsupported) > 0 {
			for m, n := range r.Unsupported {
				inconclusive = append(inconclusive, fmt.Sprintf("%s: %d unsupported paths: %s", r.Name, n, m))
			}
		}
		if r.Budget > 0 {
			inconclusive = append(inconclusive, fmt.Sprintf("%s: %d paths exceeded the step budget (unwinding failure)", r.Name, r.Budget))
		}
		if r.MaxPathsHit {
			inconclusive = append(inconclusive, fmt.Sprintf("%s: path budget exhausted (unwinding failure)", r.Name))
		}
		if r.PathsWithAssert == 0 && len(r.CEX) == 0 {
			inconclusive = append(inconclusive, fmt.Sprintf("%s: no assertion reached on any feasible path (vacuous)", r.Name))
		}
		// group counterexamples
		groups := map[string][]*CounterEx{}
		var order []string
		for _, c := range r.CEX {
			k := c.Assert + "|" + c.Tag
			if _, ok := groups[k]; !ok {
				order = append(order, k)
			}
			groups[k] = append(groups[k], c)
		}
		sort.Strings(order)
		for _, k := range order {
			g := groups[k]
			var okCex *CounterEx
			var lastRO replayOutcome
			var file string
			for n, c := range g {
				if n >= 3 {
					break
				}
				file = filepath.Join(replayDir, fmt.Sprintf("%s-%s-%d.json", sanitize(r.Name), sanitize(c.Assert+"_"+c.Tag), n))
				c.Func = ph.Func
				c.Pkg = ph.Pkg
				b, _ := json.MarshalIndent(c, "", " ")
				os.WriteFile(file, b, 0o644)
				if noReplay || ph.Replay == "none" || ph.Replay == "engine" {
					okCex = c
					lastRO = replayOutcome{Reproduced: true, Result: "replay-skipped"}
					break
				}
				lastRO = nativeReplay(c, ph, file)
				if lastRO.Reproduced {
					okCex = c
					break
				}
			}
			if okCex == nil {
				unconfirmed = append(unconfirmed, map[string]interface{}{"harness": r.Name, "assert": g[0].Assert, "tag": g[0].Tag, "inputs": g[0].Inputs, "native_result": lastRO.Result, "native_output_tail": lastRO.Output, "note": g[0].Note})
				inconclusive = append(inconclusive, fmt.Sprintf("%s: counterexample for %s did not reproduce natively (%s)", r.Name, g[0].Assert, lastRO.Result))
				continue
			}
			confirmed++
			samples = append(samples, map[string]interface{}{"counterexample": okCex, "native_replay": lastRO.Result})
			// known finding?
			isKnown := false
			for _, kf := range known {
				if kf.Status == "known" && kf.Property == cfg.Property && kf.Harness == baseHarnessName(r.Name) && kf.Assert == okCex.Assert && kf.Discriminator == okCex.Tag {
					isKnown = true
					knownOut = append(knownOut, fmt.Sprintf("KNOWN-FINDING: property=%s harness=%s assert=%s discriminator=%s %s", cfg.Property, kf.Harness, kf.Assert, kf.Discriminator, kf.What))
					knownSeen = append(knownSeen, kf.Harness+"/"+kf.Assert+"/"+kf.Discriminator)
					break
				}
			}
			if !isKnown {
				violationsOut = append(violationsOut, fmt.Sprintf("VIOLATION property=%s replay=%s", cfg.Property, file))
				fmt.Fprintf(os.Stderr, "violation detail: harness=%s assert=%s tag=%s note=%s inputs=%v native=%s\n", r.Name, okCex.Assert, okCex.Tag, okCex.Note, okCex.Inputs, lastRO.Result)
			}
		}
	}
	// solver statistics
	solverStats := map[string]interface{}{}
	gStats.Lock()
	for k, s := range gStats.m {
		q := atomic.LoadInt64(&s.Queries)
		evals += q
		solverStats[k] = map[string]interface{}{"queries": q, "sat": s.Sat, "unsat": s.Unsat, "unknown": s.Unknown, "errors": s.Errors, "wall_s": float64(s.WallNs) / 1e9, "portfolio_escalations": s.Portf, "portfolio_wins": s.PortfWin}
		if s.Errors > 0 {
			inconclusive = append(inconclusive, fmt.Sprintf("solver %s reported %d errors", k, s.Errors))
		}
	}
	gStats.Unlock()
	if atomic.LoadInt64(&gSolverConflicts) > 0 {
		inconclusive = append(inconclusive, "solver disagreement (sat vs unsat) in portfolio")
	}
	if len(results) == 0 {
		inconclusive = append(inconclusive, "no harness ran")
	}

	fnames := []string{}
	for f := range funcs {
		if !strings.Contains(f, "internal/zzverif") && !strings.Contains(f, ".ZZ_") && !strings.Contains(f, ".zz") {
			fnames = append(fnames, f)
		}
	}
	sort.Strings(fnames)
	snames := []string{}
	for s := range stubs {
		snames = append(snames, s)
	}
	sort.Strings(snames)
	if len(snames) > 150 {
		snames = snames[:150]
	}
	if len(samples) == 0 {
		samples = append(samples, map[string]interface{}{"note": "no path produced a sample"})
	}
	if evals == 0 {
		evals = 1
	}
	cov := map[string]interface{}{
		"explanation":                 cfg.Explanation + " Decided by bounded symbolic execution of the real Go code (go/ssa, regenerated from /repo on this run) with an SMT solver deciding every path condition and every assertion; all statements hold only within the listed bounds.",
		"evaluations":                 evals,
		"distinct_nontrivial":         distinct,
		"rule":                        "evaluations = SMT queries discharged; distinct_nontrivial = feasible complete execution paths (distinct decision vectors) that reached at least one assertion",
		"samples":                     samples,
		"obligations":                 obligations,
		"discharged":                  discharged,
		"paths_explored":              paths,
		"reach_witnesses":             reachWitness,
		"functions_encoded":           fnames,
		"functions_encoded_count":     len(fnames),
		"stubs_hit":                   snames,
		"per_harness":                 perHarness,
		"solver":                      solverStats,
		"bounds":                      boundsOf(cfg, tier, hcfgs),
		"outside_the_claim":           cfg.Outside,
		"trusted_base":                cfg.TrustedBase,
		"load_s":                      loadS,
		"inconclusive":                inconclusive,
		"unconfirmed_counterexamples": unconfirmed,
		"confirmed_counterexamples":   confirmed,
		"known_findings_seen":         knownSeen,
		"exhaustive":                  false,
	}
	// engine-wide trusted base and assumptions, derived from what this run actually used
	tb := append([]string{}, cfg.TrustedBase...)
	as := append([]string{}, cfg.Assumptions...)
	tb = append(tb, "go/ssa construction (golang.org/x/tools v0.29.0) and the Go 1.25.0 type checker",
		"symgo: instruction semantics, cooperative scheduler (one canonical schedule except where a harness marks a choice), re-execution forking",
		"SMT solvers: z3 4.8.12 (resident, incremental), z3 5.1.0 and cvc5 1.0 (portfolio on unknown or in one-shot mode); any (error line or sat/unsat disagreement makes the run inconclusive",
		"native replay: every counterexample is re-run against the natively compiled code (real crypto, real bbolt) before it is reported")
	has := func(sub string) bool {
		for s := range stubs {
			if strings.Contains(s, sub) {
				return true
			}
		}
		for f := range funcs {
			if strings.Contains(f, sub) {
				return true
			}
		}
		return false
	}
	if has("kyber") || has("zzfake") {
		tb = append(tb, "ideal model of the pairing crypto at the kyber boundary: keys/points/scalars are tags, Sign(s,m)=H(pub(s)||m), Verify is equality with it, PubPoly.Eval / PriPoly.Eval tie share i to the commitments, RecoverCommit of >= deg+1 distinct verified shares yields the group signature (BLS uniqueness), fewer yield a different point")
		as = append(as, "unforgeability of BLS/Schnorr is NOT modelled or needed: assertions have the form 'accepted/stored => verifies'", "point decoding validity is an uninterpreted predicate of the bytes (encodings the model produced are valid)")
	}
	if has("sha256") || has("blake2b") || has("sha3") || has("zzverif.Hash") {
		as = append(as, "SHA-256 / BLAKE2b-256 / Keccak-256 are injective (collision resistance): modelled as injective uninterpreted functions, concrete inputs are hashed for real")
	}
	if has("bbolt") {
		tb = append(tb, "bbolt model: byte-key sorted buckets, Update all-or-nothing on nil error (crash points before the callback and after commit), View on a snapshot")
	}
	if has("encoding/json") || has("toml") {
		as = append(as, "encoding/json and hexjson are modelled structurally (JSON value trees built by walking the Go value by type and json tags; custom MarshalJSON / UnmarshalJSON methods of drand's types are executed); BurntSushi/toml is an identity codec on the Go value; byte-level text (escaping, number formats, key order, TOML syntax) and protobuf wire bytes are outside the claim")
	}
	if has("opaque.") || has("tracer.NewSpan") {
		as = append(as, "logging, tracing and metrics calls are no-ops (their arguments are recorded only where a property observes them)")
	}
	if has("context.") {
		as = append(as, "context deadlines never fire by themselves; cancellation happens only through cancel functions (or where a harness makes it an environment event)")
	}
	if len(activeOverrides) > 0 {
		for _, o := range activeOverrides {
			as = append(as, fmt.Sprintf("textual override applied to %s as read from /repo on this run: %q -> %q (the rest of the file is the tree's)", o.File, o.Old, o.New))
		}
		if has("zzNewProtocol") {
			as = append(as, "the kyber key-sharing protocol delivers to every completing node the same qualified set and public polynomial and a share at the node's own index (ideal outcome chosen by the harness); the protocol's own correctness is outside the claim")
		}
	}
	for _, ph := range cfg.Harnesses {
		for _, tc := range ph.Tiers {
			if tc.Params["rotating_peer_order"] == 1 {
				as = append(as, "recovery harnesses: the random order in which peers are tried (rand.Perm) is a fair sequence: the j-th draw is the identity rotated by j")
			}
			if tc.Params["fixed_peer_order"] == 1 {
				as = append(as, "scenario harnesses: the random order in which peers are tried (rand.Perm) is fixed to the identity")
			}
			for _, v := range tc.Variants {
				if v["fixed_peer_order"] == 1 {
					as = append(as, "scenario harnesses: the random order in which peers are tried (rand.Perm) is fixed to the identity")
				}
			}
		}
	}
	as = dedupStrings(as)
	if has("time.Now") {
		as = append(as, "direct time.Now() inside drand is a fixed instant in the engine; harnesses express instants relative to it with margins of at least one hour")
	}
	cfg.TrustedBase, cfg.Assumptions = tb, as
	cov["trusted_base"] = tb
	ev := map[string]interface{}{
		"property_id": cfg.Property,
		"tier":        tier,
		"seed":        seed,
		"level":       "other",
		"coverage":    cov,
		"assumptions": cfg.Assumptions,
		"wall_s":      wallS + time.Since(t0).Seconds(),
		"violations":  len(violationsOut),
	}
	os.MkdirAll(filepath.Join(outDir, "evidence"), 0o755)
	eb, _ := json.MarshalIndent(ev, "", " ")
	os.WriteFile(filepath.Join(outDir, "evidence", cfg.Property+".json"), eb, 0o644)

	for _, l := range knownOut {
		fmt.Println(l)
	}
	for _, l := range violationsOut {
		fmt.Println(l)
	}
	if len(violationsOut) > 0 {
		exit = 1
	} else if len(inconclusive) > 0 {
		exit = 3
		for _, l := range inconclusive {
			fmt.Println("INCONCLUSIVE:", l)
		}
	}
	fmt.Printf("%s %s: harnesses=%d paths=%d obligations=%d discharged=%d queries=%d violations=%d known=%d exit=%d wall=%.1fs\n",
		cfg.Property, tier, len(results), paths, obligations, discharged, evals, len(violationsOut), len(knownOut), exit, wallS+time.Since(t0).Seconds())
	return exit
}

func boundsOf(cfg *PropCfg, tier string, hcfgs []PropHarness) map[string]interface{} {
	b := map[string]interface{}{}
	for k, v := range cfg.Bounds {
		b[k] = v
	}
	seen := map[string]bool{}
	for _, h := range hcfgs {
		if seen[h.Name] {
			continue
		}
		seen[h.Name] = true
		tc := h.Tiers[tier]
		if _, ok := h.Tiers[tier]; !ok {
			tc = h.Tiers["quick"]
		}
		b[h.Name] = map[string]interface{}{"params": tc.Params, "variants": tc.Variants, "max_paths": tc.MaxPaths, "max_steps": tc.MaxSteps, "doc": h.Doc}
	}
	return b
}

func sanitize(s string) string {
	var sb strings.Builder
	for _, c := range s {
		if (c >= 'a' && c <= 'z') || (c >= 'A' && c <= 'Z') || (c >= '0' && c <= '9') || c == '_' || c == '-' {
			sb.WriteRune(c)
		} else {
			sb.WriteByte('_')
		}
	}
	return sb.String()
}

func dedupStrings(in []string) []string {
	seen := map[string]bool{}
	out := []string{}
	for _, x := range in {
		if !seen[x] {
			seen[x] = true
			out = append(out, x)
		}
	}
	return out
}
