package main

import (
	"fmt"
	"go/token"
	"go/types"
	"os"
	"strings"

	"golang.org/x/tools/go/ssa"
)

// goPanic is a modelled Go panic travelling up the interpreter stack.
type goPanic struct {
	val Value // Iface
	msg string
}

// pathAbort ends the current path (infeasible, budget, unsupported, end of harness...).
type pathAbort struct {
	kind string // "infeasible", "unsupported", "budget", "gabort", "done"
	msg  string
}

type deferred struct {
	fn   Value
	args []Value
	pos  token.Pos
}

type Frame struct {
	p         *Path
	fn        *ssa.Function
	env       map[ssa.Value]Value
	block     *ssa.BasicBlock
	prev      *ssa.BasicBlock
	defers    []deferred
	result    Value
	panicking bool
	panicVal  interface{}
	repanic   bool
	caller    *Frame
}

func (fr *Frame) get(v ssa.Value) Value {
	switch x := v.(type) {
	case *ssa.Const:
		return constValue(x)
	case *ssa.Global:
		return fr.p.globalAddr(x)
	case *ssa.Function:
		return x
	case *ssa.Builtin:
		return x
	}
	if r, ok := fr.env[v]; ok {
		return r
	}
	panic(fmt.Sprintf("get: no value for %T %v in %v", v, v.Name(), fr.fn))
}

func (p *Path) unsupported(format string, a ...interface{}) {
	msg := fmt.Sprintf(format, a...)
	if len(p.fnStack) > 0 {
		msg += " [in " + p.fnStack[len(p.fnStack)-1].String() + "]"
	}
	panic(pathAbort{"unsupported", msg})
}

func (p *Path) goPanicStr(msg string) {
	panic(goPanic{val: Iface{T: p.eng.runtimeErrType, V: &Native{Kind: "runtime.Error", Data: msg}}, msg: msg})
}

// callFunction runs an SSA function body.
func (p *Path) callSSA(fn *ssa.Function, args []Value, env []Value, caller *Frame) Value {
	if fn.Blocks == nil {
		p.unsupported("no body for %s", fn.String())
	}
	p.depth++
	if p.depth > 400 {
		p.unsupported("call depth exceeded at %s", fn.String())
	}
	p.fnStack = append(p.fnStack, fn)
	defer func() { p.depth--; p.fnStack = p.fnStack[:len(p.fnStack)-1] }()
	fr := &Frame{p: p, fn: fn, env: make(map[ssa.Value]Value, 32), caller: caller}
	for i, prm := range fn.Params {
		fr.env[prm] = args[i]
	}
	for i, fv := range fn.FreeVars {
		fr.env[fv] = env[i]
	}
	p.noteFunc(fn)
	fr.block = fn.Blocks[0]
	for fr.block != nil {
		fr.run()
	}
	if fr.repanic {
		panic(fr.panicVal)
	}
	return fr.result
}

func (fr *Frame) runDefers() {
	for len(fr.defers) > 0 {
		d := fr.defers[len(fr.defers)-1]
		fr.defers = fr.defers[:len(fr.defers)-1]
		fr.runDefer(d)
	}
}

func (fr *Frame) runDefer(d deferred) {
	ok := false
	defer func() {
		if !ok {
			r := recover()
			if _, isAbort := r.(pathAbort); isAbort {
				panic(r)
			}
			if _, isAbort := r.(abortG); isAbort {
				panic(r)
			}
			if _, isCrash := r.(crashSignal); isCrash {
				panic(r)
			}
			fr.panicking = true
			fr.panicVal = r
		}
	}()
	fr.p.call(d.fn, d.args, fr, d.pos)
	ok = true
}

func (fr *Frame) run() {
	defer func() {
		if fr.block == nil {
			return // normal return
		}
		r := recover()
		if r == nil {
			return
		}
		if _, isAbort := r.(pathAbort); isAbort {
			panic(r)
		}
		if _, isAbort := r.(abortG); isAbort {
			panic(r)
		}
		if _, isCrash := r.(crashSignal); isCrash {
			panic(r) // process kill: no deferred function runs
		}
		if _, isGo := r.(goPanic); !isGo {
			// interpreter bug / unexpected Go runtime panic: surface as unsupported with context
			panic(pathAbort{"unsupported", fmt.Sprintf("interpreter fault in %s: %v", fr.fn.String(), r)})
		}
		fr.panicking = true
		fr.panicVal = r
		fr.runDefers()
		if fr.panicking {
			fr.repanic = true
			fr.block = nil
			return
		}
		// recovered
		fr.block = fr.fn.Recover
		if fr.block == nil {
			// results are the zero values
			res := fr.fn.Signature.Results()
			switch res.Len() {
			case 0:
				fr.result = nil
			case 1:
				fr.result = zero(res.At(0).Type())
			default:
				fr.result = zero(res)
			}
		}
	}()
	for {
		jumped := false
		for _, instr := range fr.block.Instrs {
			fr.p.step()
			switch fr.visit(instr) {
			case kReturn:
				return
			case kJump:
				jumped = true
			}
			if jumped {
				break
			}
		}
		if !jumped {
			panic(fmt.Sprintf("block fell through in %s", fr.fn))
		}
	}
}

const (
	kNext = iota
	kReturn
	kJump
)

func (fr *Frame) jump(b *ssa.BasicBlock) {
	fr.prev = fr.block
	fr.block = b
}

func (fr *Frame) visit(instr ssa.Instruction) int {
	p := fr.p
	switch in := instr.(type) {
	case *ssa.DebugRef:
	case *ssa.UnOp:
		fr.env[in] = p.unop(in, fr.get(in.X))
	case *ssa.BinOp:
		fr.env[in] = p.binop(in.Op, in.X.Type(), fr.get(in.X), fr.get(in.Y))
	case *ssa.Call:
		fn, args := fr.prepareCall(&in.Call)
		fr.env[in] = p.call(fn, args, fr, in.Pos())
	case *ssa.ChangeInterface:
		fr.env[in] = fr.get(in.X)
	case *ssa.ChangeType:
		fr.env[in] = fr.get(in.X)
	case *ssa.Convert:
		fr.env[in] = p.convert(in.X.Type(), in.Type(), fr.get(in.X))
	case *ssa.MultiConvert:
		fr.env[in] = p.convert(in.X.Type(), in.Type(), fr.get(in.X))
	case *ssa.SliceToArrayPointer:
		s := fr.get(in.X).(Slice)
		n := int(in.Type().Underlying().(*types.Pointer).Elem().Underlying().(*types.Array).Len())
		if len(s.A) < n {
			p.goPanicStr("slice to array pointer: length too short")
		}
		if s.Nil && n == 0 {
			fr.env[in] = (*Value)(nil)
		} else {
			// alias: represent array by a window; we copy (aliasing lost) -- rarely used
			arr := Value(Array(s.A[:n:n]))
			fr.env[in] = &arr
		}
	case *ssa.MakeInterface:
		fr.env[in] = Iface{T: in.X.Type(), V: copyVal(fr.get(in.X))}
	case *ssa.Extract:
		fr.env[in] = fr.get(in.Tuple).(Tuple)[in.Index]
	case *ssa.Slice:
		fr.env[in] = p.sliceOp(in, fr)
	case *ssa.Return:
		switch len(in.Results) {
		case 0:
		case 1:
			fr.result = fr.get(in.Results[0])
		default:
			res := make(Tuple, len(in.Results))
			for i, r := range in.Results {
				res[i] = fr.get(r)
			}
			fr.result = res
		}
		fr.block = nil
		return kReturn
	case *ssa.RunDefers:
		fr.runDefers()
		if fr.panicking {
			// a deferred call panicked during normal return
			pv := fr.panicVal
			fr.panicking = false
			panic(pv)
		}
	case *ssa.Panic:
		v := fr.get(in.X).(Iface)
		panic(goPanic{val: v, msg: p.panicString(v)})
	case *ssa.Send:
		p.chanSend(fr.get(in.Chan), fr.get(in.X))
	case *ssa.Store:
		ptr := fr.get(in.Addr).(*Value)
		if ptr == nil {
			p.goPanicStr("nil pointer dereference (store)")
		}
		*ptr = copyVal(fr.get(in.Val))
	case *ssa.If:
		c := fr.get(in.Cond).(*Term)
		succ := 1
		if p.Fork(c) {
			succ = 0
		}
		fr.jump(fr.block.Succs[succ])
		return kJump
	case *ssa.Jump:
		fr.jump(fr.block.Succs[0])
		return kJump
	case *ssa.Defer:
		fn, args := fr.prepareCall(&in.Call)
		fr.defers = append(fr.defers, deferred{fn, args, in.Pos()})
	case *ssa.Go:
		fn, args := fr.prepareCall(&in.Call)
		p.spawn(fn, args, in.Pos())
	case *ssa.MakeChan:
		n := p.concInt(fr.get(in.Size).(*Term))
		fr.env[in] = &ChanObj{Cap: n, id: p.nextChanID()}
	case *ssa.Alloc:
		v := new(Value)
		*v = zero(in.Type().Underlying().(*types.Pointer).Elem())
		fr.env[in] = v
	case *ssa.MakeSlice:
		n := p.concInt(fr.get(in.Len).(*Term))
		c := p.concInt(fr.get(in.Cap).(*Term))
		if n < 0 || c < n || c > 1<<20 {
			p.goPanicStr("makeslice: len out of range")
		}
		et := in.Type().Underlying().(*types.Slice).Elem()
		a := make([]Value, n, c)
		full := a[:c]
		for i := range full {
			full[i] = zero(et)
		}
		fr.env[in] = Slice{A: a}
	case *ssa.MakeMap:
		mt := in.Type().Underlying().(*types.Map)
		fr.env[in] = &MapObj{KT: mt.Key(), VT: mt.Elem()}
	case *ssa.Range:
		fr.env[in] = p.rangeIter(fr.get(in.X), in.X.Type())
	case *ssa.Next:
		fr.env[in] = fr.get(in.Iter).(*rangeIt).next(p)
	case *ssa.FieldAddr:
		ptr := fr.get(in.X).(*Value)
		if ptr == nil {
			p.goPanicStr("nil pointer dereference (field " + fieldName(in) + ")")
		}
		s, ok := (*ptr).(Struct)
		if !ok {
			p.unsupported("FieldAddr on non-struct %T in %s (%s)", *ptr, fr.fn, describe(*ptr))
		}
		fr.env[in] = &s[in.Field]
	case *ssa.Field:
		fr.env[in] = copyVal(fr.get(in.X).(Struct)[in.Field])
	case *ssa.IndexAddr:
		x := fr.get(in.X)
		idx := fr.get(in.Index).(*Term)
		switch c := x.(type) {
		case Slice:
			i := p.indexIn(idx, len(c.A))
			fr.env[in] = &c.A[i]
		case *Value:
			if c == nil {
				p.goPanicStr("nil pointer dereference (index)")
			}
			arr := (*c).(Array)
			i := p.indexIn(idx, len(arr))
			fr.env[in] = &arr[i]
		default:
			p.unsupported("IndexAddr on %T", x)
		}
	case *ssa.Index:
		x := fr.get(in.X)
		idx := fr.get(in.Index).(*Term)
		switch c := x.(type) {
		case Array:
			fr.env[in] = copyVal(p.selectElem(idx, []Value(c)))
		case Str:
			fr.env[in] = p.strIndex(c, idx)
		default:
			p.unsupported("Index on %T", x)
		}
	case *ssa.Lookup:
		x := fr.get(in.X)
		switch c := x.(type) {
		case Str:
			fr.env[in] = p.strIndex(c, fr.get(in.Index).(*Term))
		case *MapObj:
			v, ok := p.mapLookup(c, fr.get(in.Index))
			if v == nil {
				v = zero(in.X.Type().Underlying().(*types.Map).Elem())
			}
			if in.CommaOk {
				fr.env[in] = Tuple{copyVal(v), BoolC(ok)}
			} else {
				fr.env[in] = copyVal(v)
			}
		default:
			p.unsupported("Lookup on %T", x)
		}
	case *ssa.MapUpdate:
		m := fr.get(in.Map).(*MapObj)
		if m == nil {
			p.goPanicStr("assignment to entry in nil map")
		}
		p.mapUpdate(m, fr.get(in.Key), copyVal(fr.get(in.Value)))
	case *ssa.TypeAssert:
		fr.env[in] = p.typeAssert(in, fr.get(in.X).(Iface))
	case *ssa.MakeClosure:
		var bindings []Value
		for _, b := range in.Bindings {
			bindings = append(bindings, fr.get(b))
		}
		fr.env[in] = &Closure{in.Fn.(*ssa.Function), bindings}
	case *ssa.Phi:
		for i, pred := range in.Block().Preds {
			if fr.prev == pred {
				fr.env[in] = fr.get(in.Edges[i])
				break
			}
		}
	case *ssa.Select:
		fr.env[in] = p.selectOp(in, fr)
	default:
		p.unsupported("instruction %T in %s", instr, fr.fn)
	}
	return kNext
}

func fieldName(in *ssa.FieldAddr) string {
	st := in.X.Type().Underlying().(*types.Pointer).Elem().Underlying().(*types.Struct)
	return st.Field(in.Field).Name()
}

// prepareCall evaluates the callee and arguments of a call instruction.
func (fr *Frame) prepareCall(c *ssa.CallCommon) (Value, []Value) {
	p := fr.p
	var args []Value
	var fn Value
	if c.Method == nil {
		fn = fr.get(c.Value)
	} else {
		recv, ok := fr.get(c.Value).(Iface)
		if !ok {
			p.unsupported("invoke on %T", fr.get(c.Value))
		}
		if recv.T == nil {
			p.goPanicStr("nil pointer dereference (method " + c.Method.Name() + " on nil interface)")
		}
		if nat, ok := recv.V.(*Native); ok {
			fn = &boundNative{nat, c.Method, recv.T}
		} else {
			f := p.lookupMethod(recv.T, c.Method)
			if f == nil {
				p.unsupported("method %s not found on %v", c.Method.Name(), recv.T)
			}
			fn = f
			args = append(args, recv.V)
		}
	}
	for _, a := range c.Args {
		args = append(args, fr.get(a))
	}
	return fn, args
}

type boundNative struct {
	recv *Native
	m    *types.Func
	t    types.Type
}

func (p *Path) lookupMethod(t types.Type, m *types.Func) *ssa.Function {
	ms := p.eng.prog.MethodSets.MethodSet(t)
	sel := ms.Lookup(m.Pkg(), m.Name())
	if sel == nil {
		return nil
	}
	return p.eng.prog.MethodValue(sel)
}

// call dispatches a call to an SSA function, closure, builtin or native.
func (p *Path) call(fn Value, args []Value, caller *Frame, pos token.Pos) Value {
	switch f := fn.(type) {
	case *ssa.Function:
		if f == nil {
			p.goPanicStr("call of nil function")
		}
		return p.callFn(f, args, nil, caller)
	case *Closure:
		return p.callFn(f.Fn, args, f.Env, caller)
	case *ssa.Builtin:
		return p.builtin(f, args, caller)
	case *NativeFn:
		return f.F(p, args)
	case *boundNative:
		return p.nativeMethod(f, args)
	case FuncNil:
		p.goPanicStr("call of nil function")
	}
	p.unsupported("call of %T", fn)
	return nil
}

func (p *Path) callFn(fn *ssa.Function, args []Value, env []Value, caller *Frame) Value {
	name := fn.String()
	if p.eng.traceOn && strings.Contains(name, "drand/drand") && !strings.Contains(name, "zzverif") {
		fmt.Fprintf(os.Stderr, "%*scall %s [g%d]\n", p.depth, "", name, p.sched.cur.id)
	}
	if fn.Origin() != nil {
		name = fn.Origin().String()
	}
	if h, ok := intrinsics[name]; ok {
		p.noteStub(name)
		return h(p, fn, args)
	}
	if pk := fn.Package(); pk != nil || fn.Origin() != nil || fn.Signature.Recv() != nil {
		path := funcPkgPath(fn)
		if isOpaquePkg(path) {
			p.noteStub(path + ".*")
			return p.opaqueResult(fn.Signature, name)
		}
	}
	if fn.Blocks == nil {
		if fn.Synthetic != "" && strings.Contains(fn.Synthetic, "wrapper") {
			p.unsupported("synthetic without body %s", name)
		}
		p.unsupported("external function without body: %s", name)
	}
	return p.callSSA(fn, args, env, caller)
}

func funcPkgPath(fn *ssa.Function) string {
	if fn.Pkg != nil {
		return fn.Pkg.Pkg.Path()
	}
	if o := fn.Origin(); o != nil && o.Pkg != nil {
		return o.Pkg.Pkg.Path()
	}
	if r := fn.Signature.Recv(); r != nil {
		t := r.Type()
		if pt, ok := t.(*types.Pointer); ok {
			t = pt.Elem()
		}
		if n, ok := t.(*types.Named); ok && n.Obj().Pkg() != nil {
			return n.Obj().Pkg().Path()
		}
	}
	if fn.Object() != nil && fn.Object().Pkg() != nil {
		return fn.Object().Pkg().Path()
	}
	return ""
}

var opaquePrefixes = []string{
	"go.opentelemetry.io/", "github.com/prometheus/", "go.uber.org/zap", "google.golang.org/grpc",
	"github.com/drand/drand/v2/common/log", "github.com/grpc-ecosystem/", "google.golang.org/genproto", "github.com/go-chi/",
}

func isOpaquePkg(path string) bool {
	for _, pre := range opaquePrefixes {
		if strings.HasPrefix(path, pre) {
			return true
		}
	}
	return false
}

func typePkgPath(t types.Type) string {
	if pt, ok := t.(*types.Pointer); ok {
		t = pt.Elem()
	}
	if n, ok := t.(*types.Named); ok && n.Obj().Pkg() != nil {
		return n.Obj().Pkg().Path()
	}
	return ""
}

// opaqueOf produces a value of type t for results of un-modelled library calls.
func (p *Path) opaqueOf(t types.Type, why string) Value {
	switch u := t.Underlying().(type) {
	case *types.Basic:
		return zero(t)
	case *types.Interface:
		// every logger of drand's log package records its arguments (observables of the secrecy property), not
		// only the one the harness passes in: components create their own (log.New, log.DefaultLogger, Named, With)
		if n, ok := t.(*types.Named); ok && n.Obj().Pkg() != nil && n.Obj().Pkg().Path() == modPath+"/common/log" && n.Obj().Name() == "Logger" {
			return Iface{T: p.eng.opaqueT, V: &Native{Kind: "opaque", Data: "logger"}}
		}
		if types.Identical(t, p.eng.errorType) {
			if strings.Contains(why, "Error") || strings.HasSuffix(why, ".Err") {
				return Iface{T: p.eng.opaqueT, V: &Native{Kind: "opaque", Data: why}}
			}
			return Iface{}
		}
		return Iface{T: p.eng.opaqueT, V: &Native{Kind: "opaque", Data: why}}
	case *types.Pointer:
		v := Value(&Native{Kind: "opaque", Data: why})
		return &v
	case *types.Struct:
		if isOpaquePkg(typePkgPath(t)) {
			return &Native{Kind: "opaque", Data: why}
		}
		return zero(t)
	case *types.Signature:
		sig := u
		return &NativeFn{Name: "opaque-func", F: func(p *Path, args []Value) Value { return p.opaqueResult(sig, why) }}
	case *types.Slice, *types.Map, *types.Chan, *types.Array:
		return zero(t)
	}
	return zero(t)
}

func (p *Path) opaqueResult(sig *types.Signature, why string) Value {
	res := sig.Results()
	switch res.Len() {
	case 0:
		return nil
	case 1:
		return p.opaqueOf(res.At(0).Type(), why)
	}
	tp := make(Tuple, res.Len())
	for i := range tp {
		tp[i] = p.opaqueOf(res.At(i).Type(), why)
	}
	return tp
}

func (p *Path) panicString(v Iface) string {
	if v.T == nil {
		return "panic(nil)"
	}
	switch x := v.V.(type) {
	case Str:
		if x.IsConc() {
			return x.Conc()
		}
		return "<symbolic string>"
	case *Native:
		if s, ok := x.Data.(string); ok {
			return s
		}
		if e, ok := x.Data.(*ErrObj); ok && e.Msg.IsConc() {
			return e.Msg.Conc()
		}
	}
	return fmt.Sprintf("panic(%v)", v.T)
}
