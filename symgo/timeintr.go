package main

import (
	"golang.org/x/tools/go/ssa"
)

// Direct uses of the real clock inside drand (DKG timeouts, execution start): the engine's wall clock is a
// fixed instant T0 (2030-01-01) that only moves when modelled code sleeps; natively the real clock runs, so
// harnesses express instants relative to time.Now() with wide margins.
const engineT0 = int64(1893456000)

type wallDeadline struct {
	at    int64
	fn    Value
	fired bool
}

func (p *Path) wallNow() int64 {
	if v, ok := p.natives["wall"]; ok {
		return v.(int64)
	}
	return engineT0
}

func init() {
	reg("time.Now", func(p *Path, fn *ssa.Function, a []Value) Value {
		unix := p.eng.pkgByPath["time"].Func("Unix")
		return p.callFn(unix, []Value{BVC(uint64(p.wallNow()), 64), BVC(0, 64)}, nil, nil)
	})
	reg("time.Sleep", func(p *Path, fn *ssa.Function, a []Value) Value {
		d := a[0].(*Term)
		if d.IsConst() {
			p.natives["wall"] = p.wallNow() + signExt(d.Val, 64)/1e9
		}
		// wall-clock deadlines registered by the harness (zz.AfterWall) fire when modelled time passes them
		if dl, ok := p.natives["walldeadlines"].([]*wallDeadline); ok {
			for _, w := range dl {
				if !w.fired && p.wallNow() >= w.at {
					w.fired = true
					p.call(w.fn, nil, nil, 0)
				}
			}
		}
		return nil
	})
	// zz.AfterWall(d, f): f runs once the modelled wall clock has advanced by d (natively: time.AfterFunc)
	reg(zzPkg+".AfterWall", func(p *Path, fn *ssa.Function, a []Value) Value {
		d := a[0].(*Term)
		if !d.IsConst() {
			p.unsupported("AfterWall with a symbolic duration")
		}
		dl, _ := p.natives["walldeadlines"].([]*wallDeadline)
		p.natives["walldeadlines"] = append(dl, &wallDeadline{at: p.wallNow() + signExt(d.Val, 64)/1e9, fn: a[1]})
		return nil
	})
	reg("time.After", func(p *Path, fn *ssa.Function, a []Value) Value {
		// fires immediately when the duration is not positive, otherwise never by itself (deadlines are
		// environment events the harness triggers explicitly)
		d := a[0].(*Term)
		ch := &ChanObj{Cap: 1, id: p.nextChanID()}
		if d.IsConst() && signExt(d.Val, 64) <= 0 {
			unix := p.eng.pkgByPath["time"].Func("Unix")
			ch.Buf = append(ch.Buf, p.callFn(unix, []Value{BVC(uint64(p.wallNow()), 64), BVC(0, 64)}, nil, nil))
		}
		return ch
	})
	reg("time.Since", func(p *Path, fn *ssa.Function, a []Value) Value { return BVC(0, 64) })
	reg("(time.Time).String", func(p *Path, fn *ssa.Function, a []Value) Value { return Str{C: "<time>"} })
	reg("(time.Time).Format", func(p *Path, fn *ssa.Function, a []Value) Value { return Str{C: "<time>"} })
	reg("(time.Duration).String", func(p *Path, fn *ssa.Function, a []Value) Value {
		d := a[0].(*Term)
		if !d.IsConst() {
			return Str{C: "<duration>", Poison: true}
		}
		return nil2str(p, fn, a)
	})
}

func nil2str(p *Path, fn *ssa.Function, a []Value) Value { return p.callSSA(fn, a, nil, nil) }

func init() {
	// the threshold monitor only feeds metrics from a real-time ticker: not started under the engine
	reg("(*"+modPath+"/internal/metrics.ThresholdMonitor).Start", func(p *Path, fn *ssa.Function, a []Value) Value { return nil })
	reg("(*"+modPath+"/internal/metrics.ThresholdMonitor).Stop", func(p *Path, fn *ssa.Function, a []Value) Value { return nil })
}
