package main

import (
	"fmt"
	"go/types"
	"strings"

	"golang.org/x/tools/go/ssa"
)

// Identity codec for reflection-driven text encoders (encoding/json, BurntSushi/toml, hexjson): the encoded
// form is an opaque token that stands for a deep copy of the Go value; decoding a token yields a deep copy
// of that value into the target. Byte-level text round trips are therefore outside every claim; what drand
// writes by hand (the mirror structs) is executed for real.

type codecEntry struct {
	kind string
	val  Value
}

const codecMagic = "\x00ZZCODEC:"

func (p *Path) codecTable() map[int]*codecEntry {
	t, ok := p.natives["codec"].(map[int]*codecEntry)
	if !ok {
		t = map[int]*codecEntry{}
		p.natives["codec"] = t
	}
	return t
}

func (p *Path) codecEncode(kind string, v Value) []*Term {
	t := p.codecTable()
	id := len(t) + 1
	t[id] = &codecEntry{kind, deepCopy(v, map[*Value]*Value{})}
	return StrC(fmt.Sprintf("%s%s:%06d", codecMagic, kind, id)).Bytes()
}

func (p *Path) codecLookup(bs []*Term) *codecEntry {
	s := StrFromTerms(bs)
	if !s.IsConc() {
		return nil
	}
	c := s.Conc()
	if len(c) < len(codecMagic)+7 || c[:len(codecMagic)] != codecMagic {
		return nil
	}
	var id int
	if _, err := fmt.Sscanf(c[len(c)-6:], "%d", &id); err != nil {
		return nil
	}
	return p.codecTable()[id]
}

// codecTokensIn finds every codec token embedded in a byte string (a buffer that collected several encodings, a
// file written in pieces): "<magic><kind>:<6 digits>".
func (p *Path) codecTokensIn(bs []*Term) []*codecEntry {
	b := make([]byte, len(bs))
	for i, t := range bs {
		if t != nil && t.IsConst() {
			b[i] = byte(t.Val)
		}
	}
	c := string(b)
	var out []*codecEntry
	for off := 0; ; {
		i := strings.Index(c[off:], codecMagic)
		if i < 0 {
			break
		}
		start := off + i
		off = start + len(codecMagic)
		j := strings.IndexByte(c[off:], ':')
		if j < 0 || j > 16 || off+j+7 > len(c) {
			continue
		}
		var id int
		if _, err := fmt.Sscanf(c[off+j+1:off+j+7], "%d", &id); err != nil {
			continue
		}
		if e := p.codecTable()[id]; e != nil {
			out = append(out, e)
		}
	}
	return out
}

func deepCopy(v Value, seen map[*Value]*Value) Value {
	switch x := v.(type) {
	case Struct:
		c := make(Struct, len(x))
		for i, f := range x {
			c[i] = deepCopy(f, seen)
		}
		return c
	case Array:
		c := make(Array, len(x))
		for i, f := range x {
			c[i] = deepCopy(f, seen)
		}
		return c
	case Slice:
		if x.Nil {
			return x
		}
		a := make([]Value, len(x.A))
		for i, f := range x.A {
			a[i] = deepCopy(f, seen)
		}
		return Slice{A: a}
	case *Value:
		if x == nil {
			return x
		}
		if c, ok := seen[x]; ok {
			return c
		}
		if _, isNat := (*x).(*Native); isNat {
			return x
		}
		c := new(Value)
		seen[x] = c
		*c = deepCopy(*x, seen)
		return c
	case Iface:
		if x.T == nil {
			return x
		}
		return Iface{T: x.T, V: deepCopy(x.V, seen)}
	case *MapObj:
		if x == nil {
			return x
		}
		m := &MapObj{KT: x.KT, VT: x.VT}
		for i := range x.Keys {
			m.Keys = append(m.Keys, deepCopy(x.Keys[i], seen))
			m.Vals = append(m.Vals, deepCopy(x.Vals[i], seen))
		}
		return m
	}
	return v
}

// decodeInto copies a stored value into *target (target is a pointer value or an interface holding one).
func (p *Path) decodeInto(e *codecEntry, target Value) bool {
	if ifc, ok := target.(Iface); ok {
		target = ifc.V
	}
	ptr, ok := target.(*Value)
	if !ok || ptr == nil {
		return false
	}
	src := e.val
	if sp, ok := src.(*Value); ok && sp != nil {
		src = *sp // encoded a pointer: decode into the pointee
	}
	if ifc, ok := src.(Iface); ok {
		src = ifc.V
		if sp, ok := src.(*Value); ok && sp != nil {
			src = *sp
		}
	}
	*ptr = deepCopy(src, map[*Value]*Value{})
	return true
}

func init() {
	unmarshal := func(kind string) intrinsicFn {
		return func(p *Path, fn *ssa.Function, a []Value) Value {
			e := p.codecLookup(bytesOf(p, a[0]))
			if e == nil || !p.decodeInto(e, a[1]) {
				return p.newError(StrC(kind+": cannot decode (not produced by the modelled encoder)"), nil)
			}
			return Iface{}
		}
	}
	// encoding/json itself is modelled structurally (jsonmodel.go)
	reg("github.com/BurntSushi/toml.Unmarshal", unmarshal("toml"))
	// toml.NewEncoder(w).Encode(v) / toml.NewDecoder(r).Decode(v)
	reg("github.com/BurntSushi/toml.NewEncoder", func(p *Path, fn *ssa.Function, a []Value) Value {
		v := Value(&Native{Kind: "toml:encoder", Data: a[0]})
		return &v
	})
	reg("(*github.com/BurntSushi/toml.Encoder).Encode", func(p *Path, fn *ssa.Function, a []Value) Value {
		nat := (*(a[0].(*Value))).(*Native)
		p.ifaceWrite(nat.Data.(Iface), p.codecEncode("toml", a[1]))
		return Iface{}
	})
	reg("github.com/BurntSushi/toml.Decode", func(p *Path, fn *ssa.Function, a []Value) Value {
		e := p.codecLookup(a[0].(Str).Bytes())
		md := zero(fn.Signature.Results().At(0).Type())
		if e == nil || !p.decodeInto(e, a[1]) {
			return Tuple{md, p.newError(StrC("toml: cannot decode"), nil)}
		}
		return Tuple{md, Iface{}}
	})
}

// readerBytes extracts the remaining content of an io.Reader whose implementation the engine knows.
func (p *Path) readerBytes(r Iface) []*Term {
	if r.T == nil {
		p.goPanicStr("nil io.Reader")
	}
	if ptr, ok := r.V.(*Value); ok && ptr != nil {
		if st, ok := (*ptr).(Struct); ok && len(st) >= 2 {
			// *bytes.Reader{s []byte, i int64, prevRune int}
			if sl, ok := st[0].(Slice); ok {
				if off, ok := st[1].(*Term); ok && off.IsConst() {
					return bytesOf(p, Slice{A: sl.A[off.Val:]})
				}
			}
		}
		// *bytes.Buffer handled through the buffer model
		if b, ok := p.natives[fmt.Sprintf("buf:%p", ptr)]; ok {
			return b.(*bufState).buf
		}
	}
	p.unsupported("decoder over an io.Reader the engine cannot read: %v", r.T)
	return nil
}

func init() {
	reg("github.com/BurntSushi/toml.NewDecoder", func(p *Path, fn *ssa.Function, a []Value) Value {
		v := Value(&Native{Kind: "toml:decoder", Data: a[0]})
		return &v
	})
	reg("(*github.com/BurntSushi/toml.Decoder).Decode", func(p *Path, fn *ssa.Function, a []Value) Value {
		nat := (*(a[0].(*Value))).(*Native)
		e := p.codecLookup(p.readerBytes(nat.Data.(Iface)))
		md := zero(fn.Signature.Results().At(0).Type())
		if e == nil || !p.decodeInto(e, a[1]) {
			return Tuple{md, p.newError(StrC("toml: cannot decode"), nil)}
		}
		return Tuple{md, Iface{}}
	})
	reg("os.MkdirAll", func(p *Path, fn *ssa.Function, a []Value) Value {
		if s, ok := a[0].(Str); ok && s.IsConc() {
			p.fsNoteOpen("dir:"+s.Conc(), a[1])
		}
		return Iface{}
	})
}

// deepEqualTerm models reflect.DeepEqual on interpreter values.
func (p *Path) deepEqualTerm(a, b Value, depth int) *Term {
	if depth > 60 {
		return TrueT
	}
	switch x := a.(type) {
	case *Term:
		y, ok := b.(*Term)
		if !ok || x.S != y.S {
			return FalseT
		}
		return Eq(x, y)
	case Str:
		y, ok := b.(Str)
		if !ok {
			return FalseT
		}
		return strEq(x, y)
	case Struct:
		y, ok := b.(Struct)
		if !ok || len(x) != len(y) {
			return FalseT
		}
		r := TrueT
		for i := range x {
			r = And(r, p.deepEqualTerm(x[i], y[i], depth+1))
			if r.IsFalse() {
				return r
			}
		}
		return r
	case Array:
		y, ok := b.(Array)
		if !ok || len(x) != len(y) {
			return FalseT
		}
		r := TrueT
		for i := range x {
			r = And(r, p.deepEqualTerm(x[i], y[i], depth+1))
		}
		return r
	case Slice:
		y, ok := b.(Slice)
		if !ok || x.Nil != y.Nil || len(x.A) != len(y.A) {
			return FalseT
		}
		r := TrueT
		for i := range x.A {
			r = And(r, p.deepEqualTerm(x.A[i], y.A[i], depth+1))
			if r.IsFalse() {
				return r
			}
		}
		return r
	case *Value:
		y, ok := b.(*Value)
		if !ok {
			return FalseT
		}
		if x == nil || y == nil {
			return BoolC(x == nil && y == nil)
		}
		if x == y {
			return TrueT
		}
		return p.deepEqualTerm(*x, *y, depth+1)
	case Iface:
		y, ok := b.(Iface)
		if !ok {
			return FalseT
		}
		if x.T == nil || y.T == nil {
			return BoolC(x.T == nil && y.T == nil)
		}
		if !types.Identical(x.T, y.T) {
			return FalseT
		}
		return p.deepEqualTerm(x.V, y.V, depth+1)
	case *MapObj:
		y, ok := b.(*MapObj)
		if !ok {
			return FalseT
		}
		if x == nil || y == nil {
			return BoolC(x == nil && y == nil)
		}
		if len(x.Keys) != len(y.Keys) {
			return FalseT
		}
		return BoolC(x == y) // conservative
	case *Native:
		y, ok := b.(*Native)
		if !ok {
			return FalseT
		}
		if x == y {
			return TrueT
		}
		if px, ok := x.Data.(*pointObj); ok {
			if py, ok := y.Data.(*pointObj); ok {
				return bytesEqTerm(px.tag, py.tag)
			}
		}
		if sx, ok := x.Data.(*scalarObj); ok {
			if sy, ok := y.Data.(*scalarObj); ok {
				return bytesEqTerm(sx.tag, sy.tag)
			}
		}
		return BoolC(x.Kind == y.Kind && x.Kind == "opaque")
	case FuncNil:
		_, ok := b.(FuncNil)
		return BoolC(ok)
	}
	return equals(a, b)
}

func init() {
	reg("reflect.DeepEqual", func(p *Path, fn *ssa.Function, a []Value) Value { return p.deepEqualTerm(a[0], a[1], 0) })
	reg("reflect.TypeOf", func(p *Path, fn *ssa.Function, a []Value) Value {
		ifc := a[0].(Iface)
		name := "<nil>"
		if ifc.T != nil {
			name = ifc.T.String()
		}
		return Iface{T: p.eng.opaqueT, V: &Native{Kind: "reflect:type", Data: name}}
	})
}
