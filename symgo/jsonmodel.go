package main

import (
	"fmt"
	"go/types"
	"reflect"
	"strings"

	"golang.org/x/tools/go/ssa"
)

// Structural model of encoding/json. The encoded form is an opaque token standing for a JSON VALUE TREE built
// by walking the Go value by its static type the way encoding/json does: struct fields by their json tag
// (omitempty, "-", unexported fields skipped), custom MarshalJSON / UnmarshalJSON methods of drand's own types
// ARE CALLED (common.HexBytes, chain.Info, ...), []byte as a base64 string (kept as its bytes), numbers, strings,
// arrays, pointers. Decoding walks the target type and fills it from the tree (different struct types on the
// two sides are matched by key, as in the library). The byte-level JSON text (escaping, number formatting,
// whitespace, key order) is outside every claim. Values whose type the walker does not handle are kept as an
// opaque copy that only decodes into the identical type.

type jnode struct {
	kind   byte // 'n' null, 'b' bool, 'i' number, 's' string, 'y' base64 bytes, 'a' array, 'o' object, 'x' opaque
	t      *Term
	it     types.Type
	s      Str
	bs     []*Term
	elems  []*jnode
	keys   []string
	vals   []*jnode
	opaque Value
	ot     types.Type
}

func (p *Path) jsonToken(n *jnode) []*Term {
	t := p.codecTable()
	id := len(t) + 1
	t[id] = &codecEntry{kind: "jsontree", val: &Native{Kind: "jsontree", Data: n}}
	return StrC(fmt.Sprintf("%s%s:%06d", codecMagic, "jsontree", id)).Bytes()
}

func (p *Path) jsonLookup(bs []*Term) *jnode {
	e := p.codecLookup(bs)
	if e == nil || e.kind != "jsontree" {
		return nil
	}
	return e.val.(*Native).Data.(*jnode)
}

func jsonFieldName(f *types.Var, tag string) (name string, omitempty, skip bool) {
	if !f.Exported() {
		return "", false, true
	}
	name = f.Name()
	jt := reflect.StructTag(tag).Get("json")
	if jt == "-" {
		return "", false, true
	}
	if jt != "" {
		parts := strings.Split(jt, ",")
		if parts[0] != "" {
			name = parts[0]
		}
		for _, o := range parts[1:] {
			if o == "omitempty" {
				omitempty = true
			}
		}
	}
	return name, omitempty, false
}

func isEmptyJSON(v Value) bool {
	switch x := v.(type) {
	case *Term:
		return x.IsConst() && x.Val == 0 && x.S.K != SFloat
	case Str:
		return x.Len() == 0
	case Slice:
		return x.Nil || len(x.A) == 0
	case *Value:
		return x == nil
	case Iface:
		return x.T == nil
	case *MapObj:
		return x == nil || len(x.Keys) == 0
	}
	return false
}

// jsonMethod finds a MarshalJSON / UnmarshalJSON method with a body the engine can run (drand's own types).
func (p *Path) jsonMethod(t types.Type, name string) *ssa.Function {
	fn := p.findMethod(t, name)
	if fn == nil {
		return nil
	}
	pkg := fn.Package()
	if pkg == nil || !strings.HasPrefix(pkg.Pkg.Path(), modPath) {
		return nil
	}
	return fn
}

func (p *Path) jsonEncode(t types.Type, v Value, depth int) *jnode {
	return p.jsonEncodeX(t, v, depth, false)
}

// jsonEncodeX: hexBytes selects the nikkolasg/hexjson variant ([]byte as a hex string instead of base64).
func (p *Path) jsonEncodeX(t types.Type, v Value, depth int, hexBytes bool) *jnode {
	if depth > 30 {
		p.unsupported("json: value too deep")
	}
	if t == nil {
		return &jnode{kind: 'n'}
	}
	// custom marshaler (value receiver methods are in the method set of T and of *T)
	{
		if fn := p.jsonMethod(t, "MarshalJSON"); fn != nil {
			if ptr, ok := v.(*Value); ok && ptr == nil {
				return &jnode{kind: 'n'}
			}
			recv := v
			// a value-receiver method found through a pointer type: pass the pointee
			if sig := fn.Signature; sig.Recv() != nil {
				if _, rp := sig.Recv().Type().Underlying().(*types.Pointer); !rp {
					if ptr, ok := v.(*Value); ok && ptr != nil {
						if _, tIsPtr := t.Underlying().(*types.Pointer); tIsPtr {
							recv = copyVal(*ptr)
						}
					}
				}
			}
			res := p.callFn(fn, []Value{recv}, nil, nil).(Tuple)
			if e, ok := res[1].(Iface); ok && e.T != nil {
				p.unsupported("json: MarshalJSON of %v returned an error", t)
			}
			n := p.jsonLookup(bytesOf(p, res[0]))
			if n == nil {
				p.unsupported("json: MarshalJSON of %v did not return modelled JSON", t)
			}
			return n
		}
	}
	if named, ok := t.(*types.Named); ok && named.Obj().Pkg() != nil && named.Obj().Pkg().Path() == "time" && named.Obj().Name() == "Time" {
		return &jnode{kind: 'x', opaque: deepCopy(v, map[*Value]*Value{}), ot: t}
	}
	switch u := t.Underlying().(type) {
	case *types.Basic:
		switch {
		case u.Info()&types.IsBoolean != 0:
			return &jnode{kind: 'b', t: v.(*Term)}
		case u.Info()&types.IsString != 0:
			return &jnode{kind: 's', s: v.(Str)}
		case u.Info()&(types.IsInteger|types.IsFloat) != 0:
			return &jnode{kind: 'i', t: v.(*Term), it: t}
		}
	case *types.Pointer:
		ptr, _ := v.(*Value)
		if ptr == nil {
			return &jnode{kind: 'n'}
		}
		return p.jsonEncodeX(u.Elem(), *ptr, depth+1, hexBytes)
	case *types.Interface:
		ifc, _ := v.(Iface)
		if ifc.T == nil {
			return &jnode{kind: 'n'}
		}
		return p.jsonEncodeX(ifc.T, ifc.V, depth+1, hexBytes)
	case *types.Slice:
		sl := v.(Slice)
		if sl.Nil {
			return &jnode{kind: 'n'}
		}
		if b, ok := u.Elem().Underlying().(*types.Basic); ok && b.Kind() == types.Uint8 {
			if hexBytes {
				return &jnode{kind: 'h', bs: bytesOf(p, sl)}
			}
			return &jnode{kind: 'y', bs: bytesOf(p, sl)}
		}
		n := &jnode{kind: 'a'}
		for _, e := range sl.A {
			n.elems = append(n.elems, p.jsonEncodeX(u.Elem(), e, depth+1, hexBytes))
		}
		return n
	case *types.Array:
		n := &jnode{kind: 'a'}
		for _, e := range v.(Array) {
			n.elems = append(n.elems, p.jsonEncodeX(u.Elem(), e, depth+1, hexBytes))
		}
		return n
	case *types.Struct:
		st := v.(Struct)
		n := &jnode{kind: 'o'}
		for i := 0; i < u.NumFields(); i++ {
			name, omit, skip := jsonFieldName(u.Field(i), u.Tag(i))
			if skip {
				continue
			}
			if omit && isEmptyJSON(st[i]) {
				continue
			}
			n.keys = append(n.keys, name)
			n.vals = append(n.vals, p.jsonEncodeX(u.Field(i).Type(), st[i], depth+1, hexBytes))
		}
		return n
	}
	return &jnode{kind: 'x', opaque: deepCopy(v, map[*Value]*Value{}), ot: t}
}

func (p *Path) jsonTypeErr(what string, t types.Type) Value {
	return p.newError(StrC(fmt.Sprintf("json: cannot unmarshal %s into Go value of type %v", what, t)), nil)
}

// jsonDecode fills *ptr (a value of type t) from n; returns a Go error value (Iface{} = nil).
func (p *Path) jsonDecode(n *jnode, t types.Type, ptr *Value, depth int) Value {
	if n.kind == 'h' && !p.jsonHexMode {
		p.unsupported("json: hex-encoded bytes (hexjson) decoded by encoding/json")
	}
	if n.kind == 'y' && p.jsonHexMode {
		p.unsupported("json: base64 bytes (encoding/json) decoded by hexjson")
	}
	if depth > 30 {
		p.unsupported("json: value too deep")
	}
	// custom unmarshaler on *T
	if fn := p.jsonMethod(types.NewPointer(t), "UnmarshalJSON"); fn != nil && n.kind != 'n' {
		res := p.callFn(fn, []Value{ptr, sliceOfBytes(p.jsonToken(n))}, nil, nil)
		if e, ok := res.(Iface); ok {
			return e
		}
		return Iface{}
	}
	if n.kind == 'x' {
		if types.Identical(n.ot, t) {
			*ptr = deepCopy(n.opaque, map[*Value]*Value{})
			return Iface{}
		}
		p.unsupported("json: opaque value of type %v decoded into %v", n.ot, t)
	}
	switch u := t.Underlying().(type) {
	case *types.Basic:
		switch {
		case n.kind == 'n':
			return Iface{}
		case u.Info()&types.IsBoolean != 0:
			if n.kind != 'b' {
				return p.jsonTypeErr("non-bool", t)
			}
			*ptr = n.t
			return Iface{}
		case u.Info()&types.IsString != 0:
			if n.kind != 's' {
				return p.jsonTypeErr("non-string", t)
			}
			*ptr = n.s
			return Iface{}
		case u.Info()&types.IsInteger != 0:
			if n.kind != 'i' || n.t.S.K != SBV {
				return p.jsonTypeErr("non-number", t)
			}
			w, _, _ := intInfo(t)
			switch {
			case n.t.S.W == w:
				*ptr = n.t
			case n.t.S.W < w:
				*ptr = ZExt(n.t, w)
			default:
				// a wider number fits only if its high bits are zero (otherwise the library reports an error)
				hi := Extract(n.t, n.t.S.W-1, w)
				if !p.Fork(Eq(hi, BVC(0, n.t.S.W-w))) {
					return p.jsonTypeErr("number out of range", t)
				}
				*ptr = Extract(n.t, w-1, 0)
			}
			return Iface{}
		case u.Info()&types.IsFloat != 0:
			if n.kind != 'i' || n.t.S.K != SFloat {
				return p.jsonTypeErr("non-float", t)
			}
			*ptr = n.t
			return Iface{}
		}
	case *types.Pointer:
		if n.kind == 'n' {
			*ptr = (*Value)(nil)
			return Iface{}
		}
		cur, _ := (*ptr).(*Value)
		if cur == nil {
			cur = new(Value)
			*cur = zero(u.Elem())
			*ptr = cur
		}
		return p.jsonDecode(n, u.Elem(), cur, depth+1)
	case *types.Slice:
		if n.kind == 'n' {
			*ptr = Slice{Nil: true}
			return Iface{}
		}
		if b, ok := u.Elem().Underlying().(*types.Basic); ok && b.Kind() == types.Uint8 {
			if n.kind != 'y' && n.kind != 'h' {
				return p.jsonTypeErr("non-base64 string", t)
			}
			*ptr = sliceOfBytes(append([]*Term{}, n.bs...))
			return Iface{}
		}
		if n.kind != 'a' {
			return p.jsonTypeErr("non-array", t)
		}
		out := make([]Value, len(n.elems))
		for i, e := range n.elems {
			out[i] = zero(u.Elem())
			if err := p.jsonDecode(e, u.Elem(), &out[i], depth+1); err.(Iface).T != nil {
				return err
			}
		}
		*ptr = Slice{A: out}
		return Iface{}
	case *types.Array:
		if n.kind == 'n' {
			return Iface{}
		}
		if n.kind != 'a' {
			return p.jsonTypeErr("non-array", t)
		}
		arr := (*ptr).(Array)
		for i := range arr {
			if i < len(n.elems) {
				if err := p.jsonDecode(n.elems[i], u.Elem(), &arr[i], depth+1); err.(Iface).T != nil {
					return err
				}
			}
		}
		return Iface{}
	case *types.Struct:
		if n.kind == 'n' {
			return Iface{}
		}
		if n.kind != 'o' {
			return p.jsonTypeErr("non-object", t)
		}
		st := (*ptr).(Struct)
		for i := 0; i < u.NumFields(); i++ {
			name, _, skip := jsonFieldName(u.Field(i), u.Tag(i))
			if skip {
				continue
			}
			for k, key := range n.keys {
				if key == name || strings.EqualFold(key, name) {
					if err := p.jsonDecode(n.vals[k], u.Field(i).Type(), &st[i], depth+1); err.(Iface).T != nil {
						return err
					}
					break
				}
			}
		}
		return Iface{}
	}
	p.unsupported("json: decoding into %v is not modelled", t)
	return Iface{}
}

func init() {
	jsonMarshal := func(p *Path, fn *ssa.Function, a []Value) Value {
		ifc, _ := a[0].(Iface)
		n := p.jsonEncode(ifc.T, ifc.V, 0)
		return Tuple{sliceOfBytes(p.jsonToken(n)), Iface{}}
	}
	jsonUnmarshal := func(p *Path, fn *ssa.Function, a []Value) Value {
		bs := bytesOf(p, a[0])
		n := p.jsonLookup(bs)
		if n == nil {
			// data not produced by the modelled encoder (arbitrary bytes): a syntax error, as for almost all byte strings
			return p.newError(StrC("json: cannot decode (not produced by the modelled encoder)"), nil)
		}
		ifc, _ := a[1].(Iface)
		if ifc.T == nil {
			return p.newError(StrC("json: Unmarshal(nil)"), nil)
		}
		pt, ok := ifc.T.Underlying().(*types.Pointer)
		ptr, _ := ifc.V.(*Value)
		if !ok || ptr == nil {
			return p.newError(StrC("json: Unmarshal(non-pointer)"), nil)
		}
		return p.jsonDecode(n, pt.Elem(), ptr, 0)
	}
	reg("encoding/json.Marshal", jsonMarshal)
	reg("encoding/json.Unmarshal", jsonUnmarshal)
	reg("github.com/nikkolasg/hexjson.Marshal", func(p *Path, fn *ssa.Function, a []Value) Value {
		ifc, _ := a[0].(Iface)
		n := p.jsonEncodeX(ifc.T, ifc.V, 0, true)
		return Tuple{sliceOfBytes(p.jsonToken(n)), Iface{}}
	})
	reg("github.com/nikkolasg/hexjson.Unmarshal", func(p *Path, fn *ssa.Function, a []Value) Value {
		p.jsonHexMode = true
		defer func() { p.jsonHexMode = false }()
		return jsonUnmarshal(p, fn, a)
	})
}
