package main

import (
	"crypto/sha256"
	"encoding/binary"
	"fmt"
	"go/types"
	"os"
	"sort"
	"strconv"
	"strings"

	"golang.org/x/crypto/blake2b"
	"golang.org/x/crypto/sha3"
	"golang.org/x/tools/go/ssa"
)

const zzPkg = "github.com/drand/drand/v2/internal/zzverif"

type intrinsicFn func(p *Path, fn *ssa.Function, args []Value) Value

var intrinsics = map[string]intrinsicFn{}

func reg(name string, f intrinsicFn) { intrinsics[name] = f }

func strArg(p *Path, v Value) string {
	s := v.(Str)
	if !s.IsConc() {
		p.unsupported("symbolic string where a concrete one is required")
	}
	return s.Conc()
}

func bytesOf(p *Path, v Value) []*Term {
	switch x := v.(type) {
	case Slice:
		out := make([]*Term, len(x.A))
		for i, e := range x.A {
			out[i] = e.(*Term)
		}
		return out
	case Str:
		return x.Bytes()
	}
	p.unsupported("bytesOf %T", v)
	return nil
}

func sliceOfBytes(bs []*Term) Slice {
	a := make([]Value, len(bs))
	for i, b := range bs {
		a[i] = b
	}
	return Slice{A: a}
}

func concBytes(bs []*Term) ([]byte, bool) {
	out := make([]byte, len(bs))
	for i, b := range bs {
		if !b.IsConst() {
			return nil, false
		}
		out[i] = byte(b.Val)
	}
	return out, true
}

// ---------- hash model: injective uninterpreted functions ----------

type hashApp struct {
	kind string
	in   []*Term
	out  []*Term // 4 x 64-bit words
}

func (p *Path) hashApply(kind string, in []*Term) []*Term {
	var words []*Term
	if cb, ok := concBytes(in); ok {
		var d []byte
		switch kind {
		case "sha256", "mac":
			s := sha256.Sum256(append([]byte(kindPrefix(kind)), cb...))
			d = s[:]
		case "blake2b":
			s := blake2b.Sum256(cb)
			d = s[:]
		case "keccak":
			h := sha3.NewLegacyKeccak256()
			h.Write(cb)
			d = h.Sum(nil)
		default:
			s := sha256.Sum256(append([]byte(kind+":"), cb...))
			d = s[:]
		}
		for i := 0; i < 4; i++ {
			words = append(words, BVC(binary.BigEndian.Uint64(d[8*i:]), 64))
		}
	} else {
		for i := 0; i < 4; i++ {
			words = append(words, p.freshVar("h_"+kind, BV(64)))
		}
	}
	app := &hashApp{kind: kind, in: in, out: words}
	// Ackermann + injectivity against earlier applications of the same function
	for _, o := range p.hashApps {
		if o.kind != kind {
			continue
		}
		outEq := TrueT
		for i := 0; i < 4; i++ {
			outEq = And(outEq, Eq(o.out[i], words[i]))
		}
		if len(o.in) != len(in) {
			p.addSide(Not(outEq))
			continue
		}
		inEq := TrueT
		for i := range in {
			inEq = And(inEq, Eq(o.in[i], in[i]))
		}
		if inEq.IsConst() && outEq.IsConst() {
			continue
		}
		p.addSide(Eq(inEq, outEq))
	}
	p.hashApps = append(p.hashApps, app)
	out := make([]*Term, 32)
	for i := 0; i < 32; i++ {
		w := words[i/8]
		sh := 8 * (7 - i%8)
		out[i] = Extract(w, sh+7, sh)
	}
	return out
}

func kindPrefix(kind string) string {
	if kind == "sha256" {
		return ""
	}
	return kind + ":"
}

func (p *Path) addSide(t *Term) {
	if t.IsTrue() {
		return
	}
	p.pc = append(p.pc, t)
	p.sol.Assert(t)
}

type hashObj struct {
	kind string
	buf  []*Term
}

// ---------- formatting ----------

func (p *Path) formatValue(verb byte, v Value, flags string) (Str, bool) {
	ifc, ok := v.(Iface)
	if ok {
		if ifc.T == nil {
			return StrC("<nil>"), true
		}
		v = ifc.V
		// errors and Stringers
		if verb == 's' || verb == 'v' || verb == 'q' {
			if nat, ok := v.(*Native); ok {
				if e, ok := nat.Data.(*ErrObj); ok {
					return e.Msg, true
				}
				if s, ok := nat.Data.(string); ok {
					return StrC(s), true
				}
				return StrC("<" + nat.Kind + ">"), true
			}
			if pp := typePkgPath(ifc.T); strings.Contains(pp, "/protobuf/") || strings.HasPrefix(pp, "google.golang.org/protobuf") {
				return Str{C: "<protobuf message>", Poison: true}, true // reflection-driven text rendering is outside the engine
			}
			if m := p.findMethod(ifc.T, "Error"); m != nil {
				r := p.callFn(m, []Value{ifc.V}, nil, nil)
				return r.(Str), true
			}
			if m := p.findMethod(ifc.T, "String"); m != nil && verb != 'q' {
				r := p.callFn(m, []Value{ifc.V}, nil, nil)
				return r.(Str), true
			}
		}
	}
	switch x := v.(type) {
	case *Term:
		if !x.IsConst() {
			return Str{C: "<sym>", Poison: true}, true
		}
		switch x.S.K {
		case SBool:
			return StrC(strconv.FormatBool(x.Val == 1)), true
		case SFloat:
			return StrC(strconv.FormatFloat(x.F, 'g', -1, 64)), true
		}
		signed := true
		if ok && ifc.T != nil {
			_, signed, _ = intInfo(ifc.T)
		}
		switch verb {
		case 'x':
			return StrC(strconv.FormatUint(x.Val, 16)), true
		case 'c':
			return StrC(string(rune(x.Val))), true
		}
		if signed {
			return StrC(strconv.FormatInt(signExt(x.Val, x.S.W), 10)), true
		}
		return StrC(strconv.FormatUint(x.Val, 10)), true
	case Str:
		if verb == 'x' {
			return hexOfBytes(x.Bytes()), true
		}
		if verb == 'q' {
			if x.IsConc() {
				return StrC(strconv.Quote(x.Conc())), true
			}
			return Str{C: "<sym>", Poison: true}, true
		}
		return x, true
	case Slice:
		// []byte
		if len(x.A) == 0 {
			if verb == 'x' || verb == 's' {
				return StrC(""), true
			}
			return StrC("[]"), true
		}
		if _, isT := x.A[0].(*Term); isT && x.A[0].(*Term).S.W == 8 {
			bs := bytesOf(p, x)
			switch verb {
			case 'x':
				return hexOfBytes(bs), true
			case 's':
				return StrFromTerms(bs), true
			}
		}
		return p.formatList(verb, x.A, flags), true
	case Array:
		if len(x) > 0 {
			if t, isT := x[0].(*Term); isT && t.S.K == SBV && t.S.W == 8 && verb == 'x' {
				return hexOfBytes(bytesOf(p, Slice{A: x})), true
			}
		}
		return p.formatList(verb, x, flags), true
	case *Value:
		if x == nil {
			return StrC("<nil>"), true
		}
		return Str{C: "<ptr>", Poison: true}, true
	}
	return Str{C: "<val>", Poison: true}, true
}

// formatList renders a slice or array the way fmt does for %v: "[a b c]".
func (p *Path) formatList(verb byte, elems []Value, flags string) Str {
	res := StrC("[")
	for i, e := range elems {
		if i > 0 {
			res = strConcat(res, StrC(" "))
		}
		// element types are not carried by slice values: 8-bit elements are rendered unsigned (bytes)
		if t, ok := e.(*Term); ok && t.IsConst() && t.S.K == SBV && t.S.W == 8 && verb != 'x' {
			res = strConcat(res, StrC(strconv.FormatUint(t.Val, 10)))
			continue
		}
		s, _ := p.formatValue(verb, e, flags)
		res = strConcat(res, s)
	}
	return strConcat(res, StrC("]"))
}

func hexNibble(n *Term) *Term {
	// n is 8-bit with value < 16
	if n.IsConst() {
		return BVC(uint64("0123456789abcdef"[n.Val&15]), 8)
	}
	lt := Cmp(OpUlt, n, BVC(10, 8))
	return Ite(lt, BinBV(OpAdd, n, BVC('0', 8)), BinBV(OpAdd, n, BVC('a'-10, 8)))
}

// hex characters remember which symbolic byte they were produced from (Term.orig), so that
// decode(encode(b)) folds back to b without going through the solver.

func hexOfBytes(bs []*Term) Str {
	out := make([]*Term, 0, 2*len(bs))
	for _, b := range bs {
		h, l := hexNibble(BinBV(OpLShr, b, BVC(4, 8))), hexNibble(BinBV(OpAnd, b, BVC(15, 8)))
		if !b.IsConst() {
			if h.orig == nil && l.orig == nil {
				h.orig, h.origHi = b, true
				l.orig, l.origHi = b, false
			}
		}
		out = append(out, h, l)
	}
	return StrFromTerms(out)
}

func (p *Path) findMethod(t types.Type, name string) *ssa.Function {
	ms := p.eng.prog.MethodSets.MethodSet(t)
	for i := 0; i < ms.Len(); i++ {
		if ms.At(i).Obj().Name() == name {
			return p.eng.prog.MethodValue(ms.At(i))
		}
	}
	return nil
}

// sprintf implements the subset of fmt verbs used by drand; returns wrapped errors (%w) too.
func (p *Path) sprintf(format string, args []Value) (Str, []Value) {
	var parts []Str
	var wrapped []Value
	lit := strings.Builder{}
	flush := func() {
		if lit.Len() > 0 {
			parts = append(parts, StrC(lit.String()))
			lit.Reset()
		}
	}
	ai := 0
	for i := 0; i < len(format); i++ {
		c := format[i]
		if c != '%' {
			lit.WriteByte(c)
			continue
		}
		i++
		if i >= len(format) {
			break
		}
		if format[i] == '%' {
			lit.WriteByte('%')
			continue
		}
		fl := ""
		for i < len(format) && strings.ContainsRune("+-# 0123456789.", rune(format[i])) {
			fl += string(format[i])
			i++
		}
		if i >= len(format) {
			break
		}
		verb := format[i]
		if ai >= len(args) {
			lit.WriteString("%!" + string(verb) + "(MISSING)")
			continue
		}
		a := args[ai]
		ai++
		if verb == 'w' {
			wrapped = append(wrapped, a)
			verb = 'v'
		}
		flush()
		s, _ := p.formatValue(verb, a, fl)
		if p.hasSecret(a) {
			s.Secret = true
		}
		parts = append(parts, s)
	}
	flush()
	res := Str{}
	for _, s := range parts {
		res = strConcat(res, s)
	}
	return res, wrapped
}

func strConcat(a, b Str) Str {
	if a.Sym == nil && b.Sym == nil {
		return Str{C: a.C + b.C, Poison: a.Poison || b.Poison, Secret: a.Secret || b.Secret}
	}
	r := StrFromTerms(append(append([]*Term{}, a.Bytes()...), b.Bytes()...))
	r.Poison = a.Poison || b.Poison
	r.Secret = a.Secret || b.Secret
	return r
}

func variadic(v Value) []Value {
	s := v.(Slice)
	return s.A
}

func (p *Path) newError(msg Str, wrapped []Value) Value {
	return Iface{T: p.eng.nativeT("error"), V: &Native{Kind: "error", Data: &ErrObj{Msg: msg, Wrapped: wrapped}}}
}

// ---------- errors.Is / As ----------

func (p *Path) errUnwrap(e Iface) []Iface {
	if e.T == nil {
		return nil
	}
	if nat, ok := e.V.(*Native); ok {
		if eo, ok := nat.Data.(*ErrObj); ok {
			var out []Iface
			for _, w := range eo.Wrapped {
				if wi, ok := w.(Iface); ok && wi.T != nil {
					out = append(out, wi)
				}
			}
			return out
		}
		return nil
	}
	if m := p.findMethod(e.T, "Unwrap"); m != nil {
		r := p.callFn(m, []Value{e.V}, nil, nil)
		switch x := r.(type) {
		case Iface:
			if x.T != nil {
				return []Iface{x}
			}
		case Slice:
			var out []Iface
			for _, w := range x.A {
				if wi := w.(Iface); wi.T != nil {
					out = append(out, wi)
				}
			}
			return out
		}
	}
	return nil
}

func (p *Path) errorsIs(err, target Iface) bool {
	if err.T == nil || target.T == nil {
		return err.T == nil && target.T == nil
	}
	comparable := types.Comparable(target.T)
	if _, ok := target.V.(*Native); ok {
		comparable = true
	}
	var walk func(e Iface) bool
	walk = func(e Iface) bool {
		if comparable {
			eq := equals(e, target)
			if p.Fork(eq) {
				return true
			}
		}
		if _, isNat := e.V.(*Native); !isNat {
			if m := p.findMethod(e.T, "Is"); m != nil {
				r := p.callFn(m, []Value{e.V, target}, nil, nil).(*Term)
				if p.Fork(r) {
					return true
				}
			}
		}
		for _, w := range p.errUnwrap(e) {
			if walk(w) {
				return true
			}
		}
		return false
	}
	return walk(err)
}

func init() {
	// ----- zzverif API -----
	z := func(n string, f intrinsicFn) { reg(zzPkg+"."+n, f) }
	z("U8", func(p *Path, fn *ssa.Function, a []Value) Value { return p.input(strArg(p, a[0]), BV(8)) })
	z("U16", func(p *Path, fn *ssa.Function, a []Value) Value { return p.input(strArg(p, a[0]), BV(16)) })
	z("U32", func(p *Path, fn *ssa.Function, a []Value) Value { return p.input(strArg(p, a[0]), BV(32)) })
	z("U64", func(p *Path, fn *ssa.Function, a []Value) Value { return p.input(strArg(p, a[0]), BV(64)) })
	z("I64", func(p *Path, fn *ssa.Function, a []Value) Value { return p.input(strArg(p, a[0]), BV(64)) })
	z("Int", func(p *Path, fn *ssa.Function, a []Value) Value { return p.input(strArg(p, a[0]), BV(64)) })
	z("Bool", func(p *Path, fn *ssa.Function, a []Value) Value { return p.input(strArg(p, a[0]), BoolSort) })
	z("Bytes", func(p *Path, fn *ssa.Function, a []Value) Value {
		name := strArg(p, a[0])
		n := p.concInt(a[1].(*Term))
		out := make([]Value, n)
		for i := 0; i < n; i++ {
			out[i] = p.input(fmt.Sprintf("%s[%d]", name, i), BV(8))
		}
		return Slice{A: out}
	})
	z("String", func(p *Path, fn *ssa.Function, a []Value) Value {
		name := strArg(p, a[0])
		n := p.concInt(a[1].(*Term))
		out := make([]*Term, n)
		for i := 0; i < n; i++ {
			out[i] = p.input(fmt.Sprintf("%s[%d]", name, i), BV(8))
		}
		return StrFromTerms(out)
	})
	z("Choose", func(p *Path, fn *ssa.Function, a []Value) Value {
		// symbolic integer in [0,n) concretised by forking
		name := strArg(p, a[0])
		n := p.concInt(a[1].(*Term))
		v := p.input(name, BV(64))
		p.Assume(Cmp(OpUlt, v, BVC(uint64(n), 64)))
		return BVC(p.Concretize(v), 64)
	})
	z("Len", func(p *Path, fn *ssa.Function, a []Value) Value {
		name := strArg(p, a[0])
		lo, hi := p.concInt(a[1].(*Term)), p.concInt(a[2].(*Term))
		v := p.input(name, BV(64))
		p.Assume(And(Cmp(OpUle, BVC(uint64(lo), 64), v), Cmp(OpUle, v, BVC(uint64(hi), 64))))
		return BVC(p.Concretize(v), 64)
	})
	z("Concretize", func(p *Path, fn *ssa.Function, a []Value) Value {
		t := a[0].(*Term)
		return BVC(p.Concretize(t), t.S.W)
	})
	z("Assume", func(p *Path, fn *ssa.Function, a []Value) Value { p.Assume(a[0].(*Term)); return nil })
	z("Assert", func(p *Path, fn *ssa.Function, a []Value) Value {
		p.Assert(strArg(p, a[0]), a[1].(*Term))
		return nil
	})
	z("Reach", func(p *Path, fn *ssa.Function, a []Value) Value { p.reached[strArg(p, a[0])]++; return nil })
	z("Param", func(p *Path, fn *ssa.Function, a []Value) Value {
		name := strArg(p, a[0])
		v, ok := p.h.Params[name]
		if !ok {
			v = int64(p.concInt(a[1].(*Term)))
		}
		return BVC(uint64(v), 64)
	})
	z("Symbolic", func(p *Path, fn *ssa.Function, a []Value) Value { return TrueT })
	z("Quiesce", func(p *Path, fn *ssa.Function, a []Value) Value { p.Quiesce(); return nil })
	z("Yield", func(p *Path, fn *ssa.Function, a []Value) Value {
		g := p.sched.cur
		first := true
		g.wait = func() bool {
			if first {
				first = false
				return false
			}
			return true
		}
		// run others once (round-robin pick starts at current; mark not runnable once)
		g.waitWhy = "yield"
		p.yield()
		g.wait = nil
		return nil
	})
	z("WhenStuck", func(p *Path, fn *ssa.Function, a []Value) Value {
		f := a[0]
		p.spawn(&NativeFn{Name: "whenStuck", F: func(p *Path, _ []Value) Value {
			g := p.sched.cur
			idle := func() bool {
				for _, o := range p.sched.gs {
					if o == g || o.done || o.watchdog || o.inQuiesce {
						continue // a goroutine waiting for quiescence is itself idle
					}
					if o.wait == nil || o.wait() {
						return false
					}
				}
				return true
			}
			g.watchdog = true
			p.block("watchdog waiting for the system to be stuck", idle)
			// only fire if somebody is actually blocked (not simply finished)
			p.call(f, nil, nil, 0)
			return nil
		}}, nil, 0)
		return nil
	})
	z("NumBlocked", func(p *Path, fn *ssa.Function, a []Value) Value { return BVC(uint64(p.numBlocked()), 64) })
	z("HeldLocks", func(p *Path, fn *ssa.Function, a []Value) Value { return BVC(uint64(p.heldLocks(p.sched.cur)), 64) })
	z("AllLocksFree", func(p *Path, fn *ssa.Function, a []Value) Value {
		for _, m := range p.mutexes {
			if m.locked || m.readers > 0 {
				return FalseT
			}
		}
		return TrueT
	})
	z("Trace", func(p *Path, fn *ssa.Function, a []Value) Value {
		s, _ := p.sprintf(strArg(p, a[0]), variadic(a[1]))
		if len(p.trace) < 200 {
			p.trace = append(p.trace, s.C)
		}
		return nil
	})
	z("Tag", func(p *Path, fn *ssa.Function, a []Value) Value { p.tag = strArg(p, a[0]); return nil })
	z("Register", func(p *Path, fn *ssa.Function, a []Value) Value { return nil })
	z("Hash", func(p *Path, fn *ssa.Function, a []Value) Value {
		return sliceOfBytes(p.hashApply("mac:"+strArg(p, a[0]), bytesOf(p, a[1])))
	})
	z("Logger", func(p *Path, fn *ssa.Function, a []Value) Value {
		return Iface{T: p.eng.opaqueT, V: &Native{Kind: "opaque", Data: "logger"}}
	})
	z("BytesEq", func(p *Path, fn *ssa.Function, a []Value) Value {
		x, y := bytesOf(p, a[0]), bytesOf(p, a[1])
		return strEq(StrFromTerms(x), StrFromTerms(y))
	})
	z("Ite64", func(p *Path, fn *ssa.Function, a []Value) Value {
		return Ite(a[0].(*Term), a[1].(*Term), a[2].(*Term))
	})
	z("Implies", func(p *Path, fn *ssa.Function, a []Value) Value { return Implies(a[0].(*Term), a[1].(*Term)) })
	z("And", func(p *Path, fn *ssa.Function, a []Value) Value { return And(a[0].(*Term), a[1].(*Term)) })
	z("Or", func(p *Path, fn *ssa.Function, a []Value) Value { return Or(a[0].(*Term), a[1].(*Term)) })

	// ----- sync -----
	reg("(*sync.Mutex).Lock", func(p *Path, fn *ssa.Function, a []Value) Value { p.mutexLock(a[0].(*Value)); return nil })
	reg("(*sync.Mutex).Unlock", func(p *Path, fn *ssa.Function, a []Value) Value { p.mutexUnlock(a[0].(*Value)); return nil })
	reg("(*sync.Mutex).TryLock", func(p *Path, fn *ssa.Function, a []Value) Value { return BoolC(p.mutexTryLock(a[0].(*Value))) })
	reg("(*sync.RWMutex).Lock", func(p *Path, fn *ssa.Function, a []Value) Value { p.mutexLock(a[0].(*Value)); return nil })
	reg("(*sync.RWMutex).Unlock", func(p *Path, fn *ssa.Function, a []Value) Value { p.mutexUnlock(a[0].(*Value)); return nil })
	reg("(*sync.RWMutex).RLock", func(p *Path, fn *ssa.Function, a []Value) Value { p.mutexRLock(a[0].(*Value)); return nil })
	reg("(*sync.RWMutex).RUnlock", func(p *Path, fn *ssa.Function, a []Value) Value { p.mutexRUnlock(a[0].(*Value)); return nil })
	reg("(*sync.Once).Do", func(p *Path, fn *ssa.Function, a []Value) Value {
		ptr := a[0].(*Value)
		st := p.mutex(ptr)
		if st.locked {
			return nil
		}
		st.locked = true
		p.call(a[1], nil, nil, 0)
		return nil
	})
	// sync.Pool: an item handed back is what the next Get returns (the pool MAY keep it; that it may also drop it
	// is covered by New being called on an empty pool)
	poolItems := func(p *Path, ptr *Value) *[]Value {
		m, ok := p.natives["syncpool"].(map[*Value]*[]Value)
		if !ok {
			m = map[*Value]*[]Value{}
			p.natives["syncpool"] = m
		}
		l, ok := m[ptr]
		if !ok {
			l = new([]Value)
			m[ptr] = l
		}
		return l
	}
	reg("(*sync.Pool).Put", func(p *Path, fn *ssa.Function, a []Value) Value {
		if x, ok := a[1].(Iface); ok && x.T == nil {
			return nil
		}
		l := poolItems(p, a[0].(*Value))
		*l = append(*l, a[1])
		return nil
	})
	reg("(*sync.Pool).Get", func(p *Path, fn *ssa.Function, a []Value) Value {
		ptr := a[0].(*Value)
		l := poolItems(p, ptr)
		if n := len(*l); n > 0 {
			v := (*l)[n-1]
			*l = (*l)[:n-1]
			return v
		}
		st := (*ptr).(Struct)
		newFn := st[len(st)-1]
		if newFn == nil {
			return Iface{}
		}
		if c, ok := newFn.(*Closure); ok && c == nil {
			return Iface{}
		}
		return p.call(newFn, nil, nil, 0)
	})
	reg("(*sync.WaitGroup).Add", func(p *Path, fn *ssa.Function, a []Value) Value {
		st := p.mutex(a[0].(*Value))
		st.readers += p.concInt(a[1].(*Term))
		if st.readers < 0 {
			p.goPanicStr("sync: negative WaitGroup counter")
		}
		return nil
	})
	reg("(*sync.WaitGroup).Done", func(p *Path, fn *ssa.Function, a []Value) Value {
		st := p.mutex(a[0].(*Value))
		st.readers--
		if st.readers < 0 {
			p.goPanicStr("sync: negative WaitGroup counter")
		}
		return nil
	})
	reg("(*sync.WaitGroup).Wait", func(p *Path, fn *ssa.Function, a []Value) Value {
		st := p.mutex(a[0].(*Value))
		p.block("WaitGroup.Wait", func() bool { return st.readers <= 0 })
		return nil
	})
	reg("(*sync.WaitGroup).Go", func(p *Path, fn *ssa.Function, a []Value) Value {
		st := p.mutex(a[0].(*Value))
		st.readers++
		f := a[1]
		p.spawn(&NativeFn{Name: "wg.Go", F: func(p *Path, _ []Value) Value {
			p.call(f, nil, nil, 0)
			st.readers--
			return nil
		}}, nil, 0)
		return nil
	})
	for _, w := range []string{"Int32", "Int64", "Uint32", "Uint64"} {
		w := w
		reg("sync/atomic.Load"+w, func(p *Path, fn *ssa.Function, a []Value) Value { return *(a[0].(*Value)) })
		reg("sync/atomic.Store"+w, func(p *Path, fn *ssa.Function, a []Value) Value { *(a[0].(*Value)) = a[1]; return nil })
		reg("sync/atomic.Add"+w, func(p *Path, fn *ssa.Function, a []Value) Value {
			ptr := a[0].(*Value)
			*ptr = BinBV(OpAdd, (*ptr).(*Term), a[1].(*Term))
			return *ptr
		})
		reg("sync/atomic.CompareAndSwap"+w, func(p *Path, fn *ssa.Function, a []Value) Value {
			ptr := a[0].(*Value)
			if p.Fork(Eq((*ptr).(*Term), a[1].(*Term))) {
				*ptr = a[2]
				return TrueT
			}
			return FalseT
		})
	}
	atomicT := func(tn string) {
		base := "(*sync/atomic." + tn + ")."
		get := func(a []Value) *Value { return &((*(a[0].(*Value))).(Struct))[atomicValField(tn)] }
		reg(base+"Load", func(p *Path, fn *ssa.Function, a []Value) Value { return *get(a) })
		reg(base+"Store", func(p *Path, fn *ssa.Function, a []Value) Value { *get(a) = a[1]; return nil })
		reg(base+"Add", func(p *Path, fn *ssa.Function, a []Value) Value {
			c := get(a)
			*c = BinBV(OpAdd, (*c).(*Term), a[1].(*Term))
			return *c
		})
		reg(base+"Swap", func(p *Path, fn *ssa.Function, a []Value) Value {
			c := get(a)
			old := *c
			*c = a[1]
			return old
		})
		reg(base+"CompareAndSwap", func(p *Path, fn *ssa.Function, a []Value) Value {
			c := get(a)
			if p.Fork(equals(*c, a[1])) {
				*c = a[2]
				return TrueT
			}
			return FalseT
		})
	}
	for _, tn := range []string{"Int32", "Int64", "Uint32", "Uint64", "Bool"} {
		atomicT(tn)
	}
	reg("(*sync/atomic.Bool).Load", func(p *Path, fn *ssa.Function, a []Value) Value {
		v := ((*(a[0].(*Value))).(Struct))[1].(*Term)
		return Not(Eq(v, BVC(0, 32)))
	})
	reg("(*sync/atomic.Bool).Store", func(p *Path, fn *ssa.Function, a []Value) Value {
		((*(a[0].(*Value))).(Struct))[1] = Ite(a[1].(*Term), BVC(1, 32), BVC(0, 32))
		return nil
	})
	reg("(*sync/atomic.Bool).Swap", func(p *Path, fn *ssa.Function, a []Value) Value {
		st := (*(a[0].(*Value))).(Struct)
		old := Not(Eq(st[1].(*Term), BVC(0, 32)))
		st[1] = Ite(a[1].(*Term), BVC(1, 32), BVC(0, 32))
		return old
	})
	reg("(*sync/atomic.Bool).CompareAndSwap", func(p *Path, fn *ssa.Function, a []Value) Value {
		st := (*(a[0].(*Value))).(Struct)
		cur := Not(Eq(st[1].(*Term), BVC(0, 32)))
		if p.Fork(Eq(cur, a[1].(*Term))) {
			st[1] = Ite(a[2].(*Term), BVC(1, 32), BVC(0, 32))
			return TrueT
		}
		return FalseT
	})

	// ----- errors / fmt -----
	reg("errors.Is", func(p *Path, fn *ssa.Function, a []Value) Value {
		return BoolC(p.errorsIs(a[0].(Iface), a[1].(Iface)))
	})
	reg("errors.Unwrap", func(p *Path, fn *ssa.Function, a []Value) Value {
		ws := p.errUnwrap(a[0].(Iface))
		if len(ws) == 1 {
			return ws[0]
		}
		return Iface{}
	})
	reg("errors.Join", func(p *Path, fn *ssa.Function, a []Value) Value {
		var ws []Value
		msg := Str{}
		for _, e := range variadic(a[0]) {
			if ei := e.(Iface); ei.T != nil {
				ws = append(ws, ei)
				s, _ := p.formatValue('v', ei, "")
				if len(ws) > 1 {
					msg = strConcat(msg, StrC("\n"))
				}
				msg = strConcat(msg, s)
			}
		}
		if len(ws) == 0 {
			return Iface{}
		}
		return p.newError(msg, ws)
	})
	reg("errors.As", func(p *Path, fn *ssa.Function, a []Value) Value {
		err := a[0].(Iface)
		tgt := a[1].(Iface)
		pt, ok := tgt.T.(*types.Pointer)
		if !ok {
			p.unsupported("errors.As target")
		}
		var walk func(e Iface) bool
		walk = func(e Iface) bool {
			if e.T == nil {
				return false
			}
			if p.implements(e.T, e.V, pt.Elem()) {
				ptr := tgt.V.(*Value)
				if _, isI := pt.Elem().Underlying().(*types.Interface); isI {
					*ptr = e
				} else {
					*ptr = copyVal(e.V)
				}
				return true
			}
			for _, w := range p.errUnwrap(e) {
				if walk(w) {
					return true
				}
			}
			return false
		}
		return BoolC(walk(err))
	})
	reg("fmt.Errorf", func(p *Path, fn *ssa.Function, a []Value) Value {
		f := strArg(p, a[0])
		msg, wrapped := p.sprintf(f, variadic(a[1]))
		return p.newError(msg, wrapped)
	})
	reg("fmt.Sprintf", func(p *Path, fn *ssa.Function, a []Value) Value {
		msg, _ := p.sprintf(strArg(p, a[0]), variadic(a[1]))
		return msg
	})
	reg("fmt.Sprint", func(p *Path, fn *ssa.Function, a []Value) Value {
		res := Str{}
		isString := func(v Value) bool {
			ifc, ok := v.(Iface)
			if !ok || ifc.T == nil {
				return false
			}
			b, ok := ifc.T.Underlying().(*types.Basic)
			return ok && b.Info()&types.IsString != 0
		}
		args := variadic(a[0])
		for i, v := range args {
			// fmt.Sprint: "Spaces are added between operands when neither is a string"
			if i > 0 && !isString(v) && !isString(args[i-1]) {
				res = strConcat(res, StrC(" "))
			}
			s, _ := p.formatValue('v', v, "")
			res = strConcat(res, s)
		}
		return res
	})
	noop := func(p *Path, fn *ssa.Function, a []Value) Value { return p.zeroResult(fn) }
	for _, n := range []string{"fmt.Println", "fmt.Printf", "fmt.Print", "fmt.Fprintf", "fmt.Fprintln", "fmt.Fprint", "log.Printf", "log.Println", "log.Print"} {
		reg(n, noop)
	}
	// github.com/pkg/errors wrappers (they capture a stack through runtime.Callers, which has no body to run)
	pkgWrap := func(withFormat bool) intrinsicFn {
		return func(p *Path, fn *ssa.Function, a []Value) Value {
			inner, _ := a[0].(Iface)
			if inner.T == nil {
				return Iface{}
			}
			var msg Str
			if withFormat {
				msg, _ = p.sprintf(strArg(p, a[1]), variadic(a[2]))
			} else if len(a) > 1 {
				msg = a[1].(Str)
			}
			im, _ := p.formatValue('v', inner, "")
			full := im
			if msg.Len() > 0 {
				full = strConcat(strConcat(msg, StrC(": ")), im)
			}
			return p.newError(full, []Value{inner})
		}
	}
	reg("github.com/pkg/errors.Wrap", pkgWrap(false))
	reg("github.com/pkg/errors.WithMessage", pkgWrap(false))
	reg("github.com/pkg/errors.WithStack", pkgWrap(false))
	reg("github.com/pkg/errors.Wrapf", pkgWrap(true))
	reg("github.com/pkg/errors.WithMessagef", pkgWrap(true))
	reg("github.com/pkg/errors.New", func(p *Path, fn *ssa.Function, a []Value) Value { return p.newError(a[0].(Str), nil) })
	reg("github.com/pkg/errors.Errorf", func(p *Path, fn *ssa.Function, a []Value) Value {
		msg, wrapped := p.sprintf(strArg(p, a[0]), variadic(a[1]))
		return p.newError(msg, wrapped)
	})

	// ----- drand infrastructure cut points -----
	spanIntr := func(ctxIdx int) intrinsicFn {
		return func(p *Path, fn *ssa.Function, a []Value) Value {
			return Tuple{a[ctxIdx], Iface{T: p.eng.opaqueT, V: &Native{Kind: "opaque", Data: "span"}}}
		}
	}
	reg("github.com/drand/drand/v2/common/tracer.NewSpan", spanIntr(0))
	reg("github.com/drand/drand/v2/common/tracer.NewSpanFromSpanContext", spanIntr(0))
	reg("github.com/drand/drand/v2/common/tracer.NewSpanFromContext", spanIntr(0))
	reg("os.Getenv", func(p *Path, fn *ssa.Function, a []Value) Value { return StrC("") })

	// ----- bytes -----
	reg("bytes.Equal", func(p *Path, fn *ssa.Function, a []Value) Value {
		return strEq(StrFromTerms(bytesOf(p, a[0])), StrFromTerms(bytesOf(p, a[1])))
	})
	reg("bytes.Compare", func(p *Path, fn *ssa.Function, a []Value) Value {
		x, y := StrFromTerms(bytesOf(p, a[0])), StrFromTerms(bytesOf(p, a[1]))
		lt := strLess(x, y)
		eq := strEq(x, y)
		return Ite(lt, BVC(^uint64(0), 64), Ite(eq, BVC(0, 64), BVC(1, 64)))
	})
	reg("strings.Compare", func(p *Path, fn *ssa.Function, a []Value) Value {
		x, y := a[0].(Str), a[1].(Str)
		return Ite(strLess(x, y), BVC(^uint64(0), 64), Ite(strEq(x, y), BVC(0, 64), BVC(1, 64)))
	})
	reg("(*bytes.Buffer).Write", func(p *Path, fn *ssa.Function, a []Value) Value {
		b := p.bufOf(a[0].(*Value))
		bs := bytesOf(p, a[1])
		b.buf = append(b.buf, bs...)
		return Tuple{BVC(uint64(len(bs)), 64), Iface{}}
	})
	reg("(*bytes.Buffer).WriteString", func(p *Path, fn *ssa.Function, a []Value) Value {
		b := p.bufOf(a[0].(*Value))
		bs := a[1].(Str).Bytes()
		b.buf = append(b.buf, bs...)
		return Tuple{BVC(uint64(len(bs)), 64), Iface{}}
	})
	reg("(*bytes.Buffer).WriteByte", func(p *Path, fn *ssa.Function, a []Value) Value {
		b := p.bufOf(a[0].(*Value))
		b.buf = append(b.buf, a[1].(*Term))
		return Iface{}
	})
	reg("(*bytes.Buffer).Bytes", func(p *Path, fn *ssa.Function, a []Value) Value {
		return sliceOfBytes(append([]*Term(nil), p.bufOf(a[0].(*Value)).buf...))
	})
	reg("(*bytes.Buffer).String", func(p *Path, fn *ssa.Function, a []Value) Value {
		if a[0].(*Value) == nil {
			return StrC("<nil>")
		}
		return StrFromTerms(append([]*Term(nil), p.bufOf(a[0].(*Value)).buf...))
	})
	reg("(*bytes.Buffer).Len", func(p *Path, fn *ssa.Function, a []Value) Value {
		return BVC(uint64(len(p.bufOf(a[0].(*Value)).buf)), 64)
	})
	reg("(*bytes.Buffer).WriteTo", func(p *Path, fn *ssa.Function, a []Value) Value {
		b := p.bufOf(a[0].(*Value))
		bs := b.buf
		b.buf = nil // drained
		if len(bs) > 0 {
			p.ifaceWrite(a[1].(Iface), bs)
		}
		return Tuple{BVC(uint64(len(bs)), 64), Iface{}}
	})
	reg("(*bytes.Buffer).Reset", func(p *Path, fn *ssa.Function, a []Value) Value {
		p.bufOf(a[0].(*Value)).buf = nil
		return nil
	})
	reg("bytes.NewBuffer", func(p *Path, fn *ssa.Function, a []Value) Value {
		v := new(Value)
		*v = zero(fn.Signature.Results().At(0).Type().(*types.Pointer).Elem())
		p.bufOf(v).buf = append([]*Term(nil), bytesOf(p, a[0])...)
		return v
	})

	// ----- hashes -----
	mkHash := func(kind string) intrinsicFn {
		return func(p *Path, fn *ssa.Function, a []Value) Value {
			h := Iface{T: p.eng.nativeT("hash"), V: &Native{Kind: "hash", Data: &hashObj{kind: kind}}}
			if fn.Signature.Results().Len() == 2 {
				return Tuple{h, Iface{}}
			}
			return h
		}
	}
	reg("crypto/sha256.New", mkHash("sha256"))
	reg("golang.org/x/crypto/blake2b.New256", mkHash("blake2b"))
	reg("golang.org/x/crypto/sha3.NewLegacyKeccak256", mkHash("keccak"))
	reg("crypto/sha256.Sum256", func(p *Path, fn *ssa.Function, a []Value) Value {
		d := p.hashApply("sha256", bytesOf(p, a[0]))
		arr := make(Array, 32)
		for i := range arr {
			arr[i] = d[i]
		}
		return arr
	})

	// ----- encoding/hex -----
	reg("encoding/hex.EncodeToString", func(p *Path, fn *ssa.Function, a []Value) Value { return hexOfBytes(bytesOf(p, a[0])) })
	reg("encoding/hex.DecodeString", func(p *Path, fn *ssa.Function, a []Value) Value {
		s := a[0].(Str)
		if s.Len()%2 == 1 {
			return Tuple{Slice{Nil: true}, p.newError(StrC("encoding/hex: odd length hex string"), nil)}
		}
		bs := s.Bytes()
		out := make([]*Term, 0, len(bs)/2)
		valid := TrueT
		for i := 0; i < len(bs); i += 2 {
			if oh, ol := bs[i], bs[i+1]; oh.orig != nil && oh.orig == ol.orig && oh.origHi && !ol.origHi {
				out = append(out, oh.orig)
				continue
			}
			hv, ok1 := unhex(bs[i])
			lv, ok2 := unhex(bs[i+1])
			valid = And(valid, And(ok1, ok2))
			out = append(out, BinBV(OpOr, BinBV(OpShl, hv, BVC(4, 8)), lv))
		}
		if !p.Fork(valid) {
			return Tuple{Slice{Nil: true}, p.newError(StrC("encoding/hex: invalid byte"), nil)}
		}
		return Tuple{sliceOfBytes(out), Iface{}}
	})

	// ----- sort -----
	sortSlice := func(p *Path, fn *ssa.Function, a []Value) Value {
		ifc := a[0].(Iface)
		s := ifc.V.(Slice)
		less := a[1]
		n := len(s.A)
		// insertion sort (stable), comparisons fork when symbolic
		for i := 1; i < n; i++ {
			for j := i; j > 0; j-- {
				r := p.call(less, []Value{BVC(uint64(j), 64), BVC(uint64(j-1), 64)}, nil, 0).(*Term)
				if !p.Fork(r) {
					break
				}
				s.A[j], s.A[j-1] = s.A[j-1], s.A[j]
			}
		}
		return nil
	}
	reg("sort.Slice", sortSlice)
	reg("sort.SliceStable", sortSlice)
	reg("sort.Strings", func(p *Path, fn *ssa.Function, a []Value) Value {
		s := a[0].(Slice)
		for i := 1; i < len(s.A); i++ {
			for j := i; j > 0; j-- {
				if !p.Fork(strLess(s.A[j].(Str), s.A[j-1].(Str))) {
					break
				}
				s.A[j], s.A[j-1] = s.A[j-1], s.A[j]
			}
		}
		return nil
	})

	// ----- math -----
	reg("math.Floor", func(p *Path, fn *ssa.Function, a []Value) Value { return FUn(OpFFloor, a[0].(*Term)) })
	reg("math.Ceil", func(p *Path, fn *ssa.Function, a []Value) Value { return FUn(OpFCeil, a[0].(*Term)) })
	reg("math.Log2", func(p *Path, fn *ssa.Function, a []Value) Value {
		x := a[0].(*Term)
		if x.IsConst() {
			return FUn(OpFLog2, x)
		}
		// contract for x >= 1: case split on k = floor(log2 x) in [0,64], exploring only feasible brackets
		for kv := 0; kv <= 64; kv++ {
			lo := FC(float64(uint64(1) << uint(kv%64)))
			if kv == 64 {
				lo = FC(18446744073709551616.0)
			}
			hi := FC(2 * lo.F)
			if !p.Fork(And(FCmp(OpFLe, lo, x), FCmp(OpFLt, x, hi))) {
				continue
			}
			r := p.freshVar("log2", FloatSort)
			p.Assume(And(FCmp(OpFLe, FC(float64(kv)), r), FCmp(OpFLt, r, FC(float64(kv+1)))))
			p.Assume(Implies(FCmp(OpFEq, x, lo), FCmp(OpFEq, r, FC(float64(kv)))))
			return r
		}
		p.unsupported("math.Log2 of a value outside [1, 2^65)")
		return nil
	})

	// ----- strconv / strings (concrete only) -----
	reg("strconv.Itoa", func(p *Path, fn *ssa.Function, a []Value) Value {
		t := a[0].(*Term)
		if !t.IsConst() {
			return Str{C: "<sym>", Poison: true}
		}
		return StrC(strconv.Itoa(int(signExt(t.Val, 64))))
	})
	reg("strconv.FormatUint", func(p *Path, fn *ssa.Function, a []Value) Value {
		t := a[0].(*Term)
		if !t.IsConst() {
			return Str{C: "<sym>", Poison: true}
		}
		return StrC(strconv.FormatUint(t.Val, p.concInt(a[1].(*Term))))
	})
	reg("strings.HasPrefix", func(p *Path, fn *ssa.Function, a []Value) Value {
		s, pre := a[0].(Str), a[1].(Str)
		if pre.Len() > s.Len() {
			return FalseT
		}
		return strEq(StrFromTerms(s.Bytes()[:pre.Len()]), pre)
	})
	reg("strings.HasSuffix", func(p *Path, fn *ssa.Function, a []Value) Value {
		s, suf := a[0].(Str), a[1].(Str)
		if suf.Len() > s.Len() {
			return FalseT
		}
		return strEq(StrFromTerms(s.Bytes()[s.Len()-suf.Len():]), suf)
	})
	reg("strings.ToLower", func(p *Path, fn *ssa.Function, a []Value) Value {
		s := a[0].(Str)
		if s.IsConc() {
			return StrC(strings.ToLower(s.Conc()))
		}
		out := make([]*Term, s.Len())
		for i, b := range s.Bytes() {
			up := And(Cmp(OpUle, BVC('A', 8), b), Cmp(OpUle, b, BVC('Z', 8)))
			out[i] = Ite(up, BinBV(OpAdd, b, BVC(32, 8)), b)
		}
		return StrFromTerms(out)
	})
	_ = sort.Strings
}

func unhex(c *Term) (*Term, *Term) {
	if c.IsConst() {
		b := byte(c.Val)
		switch {
		case b >= '0' && b <= '9':
			return BVC(uint64(b-'0'), 8), TrueT
		case b >= 'a' && b <= 'f':
			return BVC(uint64(b-'a'+10), 8), TrueT
		case b >= 'A' && b <= 'F':
			return BVC(uint64(b-'A'+10), 8), TrueT
		}
		return BVC(0, 8), FalseT
	}
	d := And(Cmp(OpUle, BVC('0', 8), c), Cmp(OpUle, c, BVC('9', 8)))
	l := And(Cmp(OpUle, BVC('a', 8), c), Cmp(OpUle, c, BVC('f', 8)))
	u := And(Cmp(OpUle, BVC('A', 8), c), Cmp(OpUle, c, BVC('F', 8)))
	v := Ite(d, BinBV(OpSub, c, BVC('0', 8)), Ite(l, BinBV(OpSub, c, BVC('a'-10, 8)), BinBV(OpSub, c, BVC('A'-10, 8))))
	return v, Or(d, Or(l, u))
}

func atomicValField(tn string) int {
	// atomic.Int32{_ noCopy; v int32}; Int64{_ noCopy; _ align64; v int64}; Bool{_ noCopy; v uint32}
	switch tn {
	case "Int64", "Uint64":
		return 2
	}
	return 1
}

func (p *Path) zeroResult(fn *ssa.Function) Value {
	res := fn.Signature.Results()
	switch res.Len() {
	case 0:
		return nil
	case 1:
		return zero(res.At(0).Type())
	}
	return zero(res)
}

type bufState struct{ buf []*Term }

func (p *Path) bufOf(ptr *Value) *bufState {
	if ptr == nil {
		p.goPanicStr("nil pointer dereference (bytes.Buffer)")
	}
	k := fmt.Sprintf("buf:%p", ptr)
	if b, ok := p.natives[k]; ok {
		return b.(*bufState)
	}
	b := &bufState{}
	p.natives[k] = b
	return b
}

// ---------- native method dispatch ----------

func nativeImplements(p *Path, nat *Native, dyn types.Type, it *types.Interface) bool {
	switch nat.Kind {
	case "opaque", "kyber:suite", "kyber:group", "kyber:point", "kyber:scalar", "kyber:sigscheme", "zzstream", "reflect:type":
		return true
	case "error":
		eo := nat.Data.(*ErrObj)
		for i := 0; i < it.NumMethods(); i++ {
			m := it.Method(i)
			switch m.Name() {
			case "Error":
			case "Unwrap":
				sig := m.Type().(*types.Signature)
				if _, isSlice := sig.Results().At(0).Type().Underlying().(*types.Slice); isSlice {
					if len(eo.Wrapped) < 2 {
						return false
					}
				} else if len(eo.Wrapped) != 1 {
					return false
				}
			default:
				return false
			}
		}
		return true
	case "runtime.Error":
		for i := 0; i < it.NumMethods(); i++ {
			switch it.Method(i).Name() {
			case "Error", "RuntimeError":
			default:
				return false
			}
		}
		return true
	case "hash":
		for i := 0; i < it.NumMethods(); i++ {
			switch it.Method(i).Name() {
			case "Write", "Sum", "Reset", "Size", "BlockSize":
			default:
				return false
			}
		}
		return true
	case "ctx":
		for i := 0; i < it.NumMethods(); i++ {
			switch it.Method(i).Name() {
			case "Done", "Err", "Value", "Deadline":
			default:
				return false
			}
		}
		return true
	}
	return false
}

func (p *Path) nativeMethod(bn *boundNative, args []Value) Value {
	nat := bn.recv
	name := bn.m.Name()
	sig := bn.m.Type().(*types.Signature)
	switch nat.Kind {
	case "opaque":
		p.noteStub("opaque." + fmt.Sprint(nat.Data) + "." + name)
		if why, _ := nat.Data.(string); why == "logger" {
			p.logCall(name, args)
			if sig.Results().Len() == 1 {
				if _, isI := sig.Results().At(0).Type().Underlying().(*types.Interface); isI {
					return Iface{T: p.eng.opaqueT, V: nat}
				}
			}
		}
		return p.opaqueResult(sig, fmt.Sprint(nat.Data)+"."+name)
	case "error":
		eo := nat.Data.(*ErrObj)
		switch name {
		case "Error":
			return eo.Msg
		case "Unwrap":
			if _, isSlice := sig.Results().At(0).Type().Underlying().(*types.Slice); isSlice {
				return Slice{A: append([]Value(nil), eo.Wrapped...)}
			}
			if len(eo.Wrapped) == 1 {
				return eo.Wrapped[0]
			}
			return Iface{}
		}
	case "runtime.Error":
		switch name {
		case "Error":
			return StrC("runtime error: " + nat.Data.(string))
		case "RuntimeError":
			return nil
		}
	case "hash":
		h := nat.Data.(*hashObj)
		switch name {
		case "Write":
			bs := bytesOf(p, args[0])
			h.buf = append(h.buf, bs...)
			return Tuple{BVC(uint64(len(bs)), 64), Iface{}}
		case "Sum":
			pre := bytesOf(p, args[0])
			d := p.hashApply(h.kind, append([]*Term(nil), h.buf...))
			return sliceOfBytes(append(pre, d...))
		case "Reset":
			h.buf = nil
			return nil
		case "Size":
			return BVC(32, 64)
		case "BlockSize":
			return BVC(64, 64)
		}
	case "ctx":
		return p.ctxMethod(nat, name, args)
	case "kyber:suite", "kyber:group", "kyber:point", "kyber:scalar", "kyber:sigscheme":
		return p.kyberMethod(nat, name, args, sig)
	case "zzstream":
		return nil
	case "reflect:type":
		if name == "String" || name == "Name" {
			return StrC(nat.Data.(string))
		}
	}
	p.unsupported("native method %s.%s", nat.Kind, name)
	return nil
}

func (p *Path) logCall(method string, args []Value) {
	if os.Getenv("SYMGO_TRACE_LOG") != "" {
		for _, a := range args {
			fmt.Fprintf(os.Stderr, "LOGARG %s secret=%v %s\n", method, p.hasSecret(a), describe(a))
		}
	}
	if p.eng.traceOn {
		line := "LOG " + method
		for _, a := range args {
			if sl, ok := a.(Slice); ok {
				for _, e := range sl.A {
					s, _ := p.formatValue('v', e, "")
					line += " " + s.C
				}
				continue
			}
			s, _ := p.formatValue('v', a, "")
			line += " " + s.C
		}
		fmt.Fprintln(os.Stderr, line)
	}
	// logger arguments are observables for the secrecy property (C15); kept per path
	p.logArgs = append(p.logArgs, args...)
}

func init() {
	reg("internal/bytealg.IndexByteString", func(p *Path, fn *ssa.Function, a []Value) Value {
		s := a[0].(Str)
		c := a[1].(*Term)
		for i, b := range s.Bytes() {
			if p.Fork(Eq(b, c)) {
				return BVC(uint64(i), 64)
			}
		}
		return BVC(^uint64(0), 64)
	})
	reg("internal/bytealg.IndexByte", func(p *Path, fn *ssa.Function, a []Value) Value {
		c := a[1].(*Term)
		for i, b := range bytesOf(p, a[0]) {
			if p.Fork(Eq(b, c)) {
				return BVC(uint64(i), 64)
			}
		}
		return BVC(^uint64(0), 64)
	})
	reg("internal/bytealg.CountString", func(p *Path, fn *ssa.Function, a []Value) Value {
		s := a[0].(Str)
		c := a[1].(*Term)
		n := BVC(0, 64)
		for _, b := range s.Bytes() {
			n = BinBV(OpAdd, n, Ite(Eq(b, c), BVC(1, 64), BVC(0, 64)))
		}
		return n
	})
	reg("internal/bytealg.Equal", func(p *Path, fn *ssa.Function, a []Value) Value {
		return strEq(StrFromTerms(bytesOf(p, a[0])), StrFromTerms(bytesOf(p, a[1])))
	})
	reg("internal/bytealg.IndexString", func(p *Path, fn *ssa.Function, a []Value) Value {
		s, sub := a[0].(Str), a[1].(Str)
		if s.IsConc() && sub.IsConc() {
			return BVC(uint64(int64(strings.Index(s.Conc(), sub.Conc()))), 64)
		}
		sb := s.Bytes()
		for i := 0; i+sub.Len() <= len(sb); i++ {
			if p.Fork(strEq(StrFromTerms(sb[i:i+sub.Len()]), sub)) {
				return BVC(uint64(i), 64)
			}
		}
		return BVC(^uint64(0), 64)
	})
	reg("strings.Index", intrinsics["internal/bytealg.IndexString"])
	reg("strings.Contains", func(p *Path, fn *ssa.Function, a []Value) Value {
		r := intrinsics["internal/bytealg.IndexString"](p, fn, a).(*Term)
		return Not(Eq(r, BVC(^uint64(0), 64)))
	})
	reg("strings.IndexByte", intrinsics["internal/bytealg.IndexByteString"])
	reg("strings.EqualFold", func(p *Path, fn *ssa.Function, a []Value) Value {
		x, y := a[0].(Str), a[1].(Str)
		if x.IsConc() && y.IsConc() {
			return BoolC(strings.EqualFold(x.Conc(), y.Conc()))
		}
		lower := func(s Str) Str {
			out := make([]*Term, s.Len())
			for i, b := range s.Bytes() {
				up := And(Cmp(OpUle, BVC('A', 8), b), Cmp(OpUle, b, BVC('Z', 8)))
				out[i] = Ite(up, BinBV(OpAdd, b, BVC(32, 8)), b)
			}
			return StrFromTerms(out)
		}
		return strEq(lower(x), lower(y))
	})
}

func init() {
	// math/rand.Perm: every permutation is explored (symbolic schedule of peers)
	permFn := func(p *Path, fn *ssa.Function, a []Value) Value {
		n := p.concInt(a[len(a)-1].(*Term))
		idx := make([]int, n)
		for i := range idx {
			idx[i] = i
		}
		out := make([]Value, 0, n)
		if p.h.Params["fixed_peer_order"] == 1 {
			// scenario harnesses bound the exploration by fixing random orders to the identity (stated as a bound)
			for _, i := range idx {
				out = append(out, BVC(uint64(i), 64))
			}
			return Slice{A: out}
		}
		if p.h.Params["rotating_peer_order"] == 1 {
			// a FAIR random source for recovery scenarios: the j-th draw is the identity rotated by j, so that
			// every peer comes first again and again (stated as an assumption of the harness)
			j, _ := p.natives["permdraws"].(int)
			p.natives["permdraws"] = j + 1
			for i := 0; i < n; i++ {
				out = append(out, BVC(uint64((i+j)%n), 64))
			}
			return Slice{A: out}
		}
		if n > 1 {
			p.natives["randperm"] = true
		}
		for len(idx) > 0 {
			k := p.ChooseN(len(idx))
			out = append(out, BVC(uint64(idx[k]), 64))
			idx = append(idx[:k], idx[k+1:]...)
		}
		return Slice{A: out}
	}
	// crypto/rand.Read: drand uses it for identifiers that only need to be unique (callback ids, nonces): the
	// model fills the buffer with distinct concrete bytes per call
	reg("crypto/rand.Read", func(p *Path, fn *ssa.Function, a []Value) Value {
		sl := a[0].(Slice)
		n, _ := p.natives["cryptorand"].(int)
		p.natives["cryptorand"] = n + 1
		for i := range sl.A {
			sl.A[i] = BVC(uint64((n*131+i*7+0x5a)&0xff), 8)
		}
		return Tuple{BVC(uint64(len(sl.A)), 64), Iface{}}
	})
	reg("math/rand.Perm", permFn)
	reg("math/rand/v2.Perm", permFn)
}

func init() {
	reg("internal/abi.NoEscape", func(p *Path, fn *ssa.Function, a []Value) Value { return a[0] })
	reg("strings.Join", func(p *Path, fn *ssa.Function, a []Value) Value {
		elems := a[0].(Slice).A
		sep := a[1].(Str)
		res := Str{}
		for i, e := range elems {
			if i > 0 {
				res = strConcat(res, sep)
			}
			res = strConcat(res, e.(Str))
		}
		return res
	})
	sb := "(*strings.Builder)."
	reg(sb+"WriteString", func(p *Path, fn *ssa.Function, a []Value) Value {
		b := p.bufOf(a[0].(*Value))
		bs := a[1].(Str).Bytes()
		b.buf = append(b.buf, bs...)
		return Tuple{BVC(uint64(len(bs)), 64), Iface{}}
	})
	reg(sb+"Write", func(p *Path, fn *ssa.Function, a []Value) Value {
		b := p.bufOf(a[0].(*Value))
		bs := bytesOf(p, a[1])
		b.buf = append(b.buf, bs...)
		return Tuple{BVC(uint64(len(bs)), 64), Iface{}}
	})
	reg(sb+"WriteByte", func(p *Path, fn *ssa.Function, a []Value) Value {
		b := p.bufOf(a[0].(*Value))
		b.buf = append(b.buf, a[1].(*Term))
		return Iface{}
	})
	reg(sb+"WriteRune", func(p *Path, fn *ssa.Function, a []Value) Value {
		b := p.bufOf(a[0].(*Value))
		r := rune(p.Concretize(a[1].(*Term)))
		bs := StrC(string(r)).Bytes()
		b.buf = append(b.buf, bs...)
		return Tuple{BVC(uint64(len(bs)), 64), Iface{}}
	})
	reg(sb+"String", func(p *Path, fn *ssa.Function, a []Value) Value {
		return StrFromTerms(append([]*Term(nil), p.bufOf(a[0].(*Value)).buf...))
	})
	reg(sb+"Len", func(p *Path, fn *ssa.Function, a []Value) Value {
		return BVC(uint64(len(p.bufOf(a[0].(*Value)).buf)), 64)
	})
	reg(sb+"Grow", func(p *Path, fn *ssa.Function, a []Value) Value { return nil })
	reg(sb+"Reset", func(p *Path, fn *ssa.Function, a []Value) Value { p.bufOf(a[0].(*Value)).buf = nil; return nil })
	reg("strings.TrimPrefix", func(p *Path, fn *ssa.Function, a []Value) Value {
		s, pre := a[0].(Str), a[1].(Str)
		if pre.Len() <= s.Len() && p.Fork(strEq(StrFromTerms(s.Bytes()[:pre.Len()]), pre)) {
			return StrFromTerms(s.Bytes()[pre.Len():])
		}
		return s
	})
	reg("strings.TrimSuffix", func(p *Path, fn *ssa.Function, a []Value) Value {
		s, suf := a[0].(Str), a[1].(Str)
		if suf.Len() <= s.Len() && p.Fork(strEq(StrFromTerms(s.Bytes()[s.Len()-suf.Len():]), suf)) {
			return StrFromTerms(s.Bytes()[:s.Len()-suf.Len()])
		}
		return s
	})
}

func init() {
	reg("sync/atomic.LoadPointer", func(p *Path, fn *ssa.Function, a []Value) Value { return *(a[0].(*Value)) })
	reg("sync/atomic.StorePointer", func(p *Path, fn *ssa.Function, a []Value) Value { *(a[0].(*Value)) = a[1]; return nil })
}

func init() {
	reg("(*sync.RWMutex).TryLock", func(p *Path, fn *ssa.Function, a []Value) Value { return BoolC(p.mutexTryLock(a[0].(*Value))) })
	reg("(*sync.RWMutex).TryRLock", func(p *Path, fn *ssa.Function, a []Value) Value {
		m := p.mutex(a[0].(*Value))
		if m.locked {
			return FalseT
		}
		m.readers++
		m.rowners[p.sched.cur]++
		return TrueT
	})
	reg("(*sync.RWMutex).RLocker", func(p *Path, fn *ssa.Function, a []Value) Value {
		p.unsupported("RWMutex.RLocker")
		return nil
	})
}
