package main

import (
	"fmt"
	"go/types"
	"os"
	"sort"
	"strings"
	"sync"
	"sync/atomic"
	"time"

	"golang.org/x/tools/go/ssa"
)

type Decision struct {
	Kind  byte   `json:"k"` // 'b' branch, 'c' concretize, 'n' n-ary choice
	Val   uint64 `json:"v,omitempty"`
	Taken bool   `json:"t,omitempty"`
}

type HarnessCfg struct {
	Name             string           `json:"name"`
	Pkg              string           `json:"pkg"`  // import path of the package the harness lives in
	Func             string           `json:"func"` // function name
	Arith            string           `json:"arith,omitempty"`
	Params           map[string]int64 `json:"params,omitempty"`
	MaxPaths         int              `json:"max_paths,omitempty"`
	MaxSteps         int64            `json:"max_steps,omitempty"`
	TimeoutS         int              `json:"query_timeout_s,omitempty"`
	Portfolio        bool             `json:"portfolio,omitempty"`
	SelectChoice     bool             `json:"select_choice,omitempty"`
	Solver           string           `json:"solver,omitempty"`
	Preemptions      int              `json:"preemptions,omitempty"`
	ExpectViolations []string         `json:"expect,omitempty"`
}

type Harness struct {
	HarnessCfg
	Fn    *ssa.Function
	Arith int
}

type CounterEx struct {
	Harness   string            `json:"harness"`
	Assert    string            `json:"assert"`
	Inputs    map[string]string `json:"inputs"`
	Params    map[string]int64  `json:"params,omitempty"`
	Decisions []Decision        `json:"decisions,omitempty"`
	Note      string            `json:"note,omitempty"`
	Trace     []string          `json:"trace,omitempty"`
	Tag       string            `json:"tag,omitempty"`
	Func      string            `json:"func,omitempty"`
	Pkg       string            `json:"pkg,omitempty"`
	// the path drew a random order (math/rand.Perm) that a native run cannot be forced to repeat: the native
	// replay is then attempted several times, and any run that shows the violation confirms it
	RandomOrder bool `json:"random_order,omitempty"`
}

type AssertStat struct {
	Checked    int64
	Discharged int64
	Violated   int64
	Unknown    int64
	Trivial    int64
}

type HarnessResult struct {
	Name            string
	Paths           int64
	Completed       int64
	Infeasible      int64
	Unsupported     map[string]int64
	Budget          int64
	Deadlocks       int64
	Panics          int64
	Asserts         map[string]*AssertStat
	Reached         map[string]int64
	CEX             []*CounterEx
	Funcs           map[string]bool
	Stubs           map[string]int64
	Samples         []map[string]interface{}
	Witnesses       int64
	PathsWithAssert int64
	Steps           int64
	MaxPathsHit     bool
	Approx          int64
	UnknownForks    int64
	WallS           float64
}

type Engine struct {
	prog           *ssa.Program
	errorType      types.Type
	opaqueT        types.Type
	runtimeErrType types.Type
	pkgByPath      map[string]*ssa.Package
	workers        int
	seed           int64
	verbose        bool
	natTypes       map[string]types.Type
	traceOn        bool
	timeType       types.Type
}

type workItem struct {
	prefix []Decision
}

// Path is one execution of a harness following a decision prefix.
type Path struct {
	jsonHexMode  bool // hexjson.Unmarshal in progress (byte slices are hex strings)
	eng          *Engine
	h            *Harness
	res          *HarnessResult
	resMu        *sync.Mutex
	prefix       []Decision
	pos          int
	taken        []Decision
	pc           []*Term
	sol          *Solver
	inputs       []*Term
	inNames      map[string]int
	hashApps     []*hashApp
	globals      map[*ssa.Global]*Value
	inited       map[*ssa.Package]bool
	steps        int64
	depth        int
	newWork      []workItem
	hasUnknown   bool
	sched        *Sched
	mutexes      map[*Value]*mutexState
	chanID       int
	funcs        map[string]bool
	stubs        map[string]int64
	reached      map[string]int64
	assertedHere bool
	trace        []string
	natives      map[string]interface{}
	freshN       int
	envLog       []string
	logArgs      []Value
	tag          string
	verified     []*verifiedSig
	fnStack      []*ssa.Function
	preemptUsed  int
	crashArmed   int
	crashCount   int
	crashNames   []string
	crashedAt    string
	fileOpens    []fileOpen
	decodes      []*decodeAttempt
}

func (p *Path) nextChanID() int { p.chanID++; return p.chanID }

func (p *Path) step() {
	p.steps++
	if p.steps > p.h.MaxSteps {
		panic(pathAbort{"budget", "step budget exceeded"})
	}
}

func (p *Path) noteFunc(fn *ssa.Function) {
	if fn.Pkg == nil && fn.Origin() == nil {
		return
	}
	n := fn.String()
	if !p.funcs[n] {
		p.funcs[n] = true
	}
}

func (p *Path) noteStub(n string) { p.stubs[n]++ }

func (p *Path) addPC(t *Term) {
	if t.IsTrue() {
		return
	}
	p.pc = append(p.pc, t)
	p.sol.Assert(t)
}

func (p *Path) enqueue(d Decision) {
	pre := make([]Decision, len(p.taken)+1)
	copy(pre, p.taken)
	pre[len(p.taken)] = d
	p.newWork = append(p.newWork, workItem{pre})
}

// Fork decides a symbolic branch.
func (p *Path) Fork(c *Term) bool {
	if c.IsTrue() {
		return true
	}
	if c.IsFalse() {
		return false
	}
	if p.pos < len(p.prefix) {
		d := p.prefix[p.pos]
		if d.Kind != 'b' {
			panic(pathAbort{"unsupported", fmt.Sprintf("replay divergence: expected kind %c at %d got branch", d.Kind, p.pos)})
		}
		p.pos++
		p.taken = append(p.taken, d)
		if d.Taken {
			p.addPC(c)
		} else {
			p.addPC(Not(c))
		}
		return d.Taken
	}
	rt := p.sol.Check(c, false)
	if rt == Unsat {
		// pc is satisfiable, so the negation must be
		p.taken = append(p.taken, Decision{Kind: 'b', Taken: false})
		p.pos++
		p.addPC(Not(c))
		return false
	}
	rf := p.sol.Check(c, true)
	if rt == Unknown || rf == Unknown {
		p.hasUnknown = true
		atomic.AddInt64(&p.res.UnknownForks, 1)
	}
	if rf == Unsat {
		p.taken = append(p.taken, Decision{Kind: 'b', Taken: true})
		p.pos++
		p.addPC(c)
		return true
	}
	// both sides feasible (or unknown)
	p.enqueue(Decision{Kind: 'b', Taken: false})
	p.taken = append(p.taken, Decision{Kind: 'b', Taken: true})
	p.pos++
	p.addPC(c)
	return true
}

// Concretize picks a concrete value for t, forking over all feasible values.
func (p *Path) Concretize(t *Term) uint64 {
	if t.IsConst() {
		return t.Val
	}
	for {
		if p.pos < len(p.prefix) {
			d := p.prefix[p.pos]
			if d.Kind != 'c' {
				panic(pathAbort{"unsupported", fmt.Sprintf("replay divergence: expected kind %c at %d got concretize", d.Kind, p.pos)})
			}
			p.pos++
			p.taken = append(p.taken, d)
			var cv *Term
			if t.S.K == SBool {
				cv = BoolC(d.Val != 0)
			} else {
				cv = BVC(d.Val, t.S.W)
			}
			if d.Taken {
				p.addPC(Eq(t, cv))
				return d.Val
			}
			p.addPC(Not(Eq(t, cv)))
			continue
		}
		r := p.sol.Check(nil, false)
		if r == Unsat {
			panic(pathAbort{"infeasible", "concretize: no more values"})
		}
		if r == Unknown {
			p.hasUnknown = true
			panic(pathAbort{"unsupported", "concretize: solver unknown"})
		}
		// ask for a model value: name the term through a fresh variable
		p.freshN++
		pv := Var(fmt.Sprintf("conc!%d", p.freshN), t.S)
		p.sol.Assert(Eq(pv, t))
		if rr := p.sol.Check(nil, false); rr != Sat {
			panic(pathAbort{"unsupported", "concretize: solver unknown(2)"})
		}
		m, ok := p.sol.GetValues([]*Term{pv})
		if !ok {
			panic(pathAbort{"unsupported", "concretize: no model"})
		}
		v := m[pv.Name]
		if t.S.K == SBV {
			v &= mask(t.S.W)
		}
		p.enqueue(Decision{Kind: 'c', Val: v, Taken: false})
		p.taken = append(p.taken, Decision{Kind: 'c', Val: v, Taken: true})
		p.pos++
		var cv *Term
		if t.S.K == SBool {
			cv = BoolC(v != 0)
		} else {
			cv = BVC(v, t.S.W)
		}
		p.addPC(Eq(t, cv))
		return v
	}
}

// ChooseN enumerates n alternatives without involving the solver.
func (p *Path) ChooseN(n int) int {
	if n <= 1 {
		return 0
	}
	if p.pos < len(p.prefix) {
		d := p.prefix[p.pos]
		if d.Kind != 'n' {
			panic(pathAbort{"unsupported", "replay divergence: expected n-ary choice"})
		}
		p.pos++
		p.taken = append(p.taken, d)
		return int(d.Val)
	}
	for i := 1; i < n; i++ {
		p.enqueue(Decision{Kind: 'n', Val: uint64(i)})
	}
	p.taken = append(p.taken, Decision{Kind: 'n', Val: 0})
	p.pos++
	return 0
}

func (p *Path) Assume(c *Term) {
	if c.IsTrue() {
		return
	}
	if c.IsFalse() {
		panic(pathAbort{"infeasible", "assume false"})
	}
	if p.pos >= len(p.prefix) {
		if r := p.sol.Check(c, false); r == Unsat {
			panic(pathAbort{"infeasible", "assume"})
		} else if r == Unknown {
			p.hasUnknown = true
		}
	}
	p.addPC(c)
}

func (p *Path) model() map[string]string {
	m, ok := p.sol.GetValues(p.inputs)
	out := map[string]string{}
	if !ok {
		return nil
	}
	for _, v := range p.inputs {
		out[strings.TrimPrefix(v.Name, "in!")] = fmt.Sprintf("%x", m[v.Name])
	}
	return out
}

func (p *Path) stat(id string) *AssertStat {
	p.resMu.Lock()
	defer p.resMu.Unlock()
	s := p.res.Asserts[id]
	if s == nil {
		s = &AssertStat{}
		p.res.Asserts[id] = s
	}
	return s
}

func (p *Path) Assert(id string, c *Term) {
	st := p.stat(id)
	atomic.AddInt64(&st.Checked, 1)
	p.reached[id]++
	p.assertedHere = true
	if c.IsTrue() {
		atomic.AddInt64(&st.Discharged, 1)
		atomic.AddInt64(&st.Trivial, 1)
		return
	}
	var r Result
	if c.IsFalse() {
		r = p.sol.Check(nil, false)
	} else {
		r = p.sol.Check(c, true)
	}
	switch r {
	case Unsat:
		atomic.AddInt64(&st.Discharged, 1)
		// vacuity witness: first time per assert id, make sure the path condition is satisfiable
		if atomic.LoadInt64(&st.Discharged) == 1 || p.hasUnknown {
			if w := p.sol.Check(nil, false); w == Sat {
				atomic.AddInt64(&p.res.Witnesses, 1)
			} else if w == Unsat {
				panic(pathAbort{"infeasible", "vacuous path at assert " + id})
			}
		}
	case Sat:
		atomic.AddInt64(&st.Violated, 1)
		if c.IsFalse() {
			p.sol.Check(nil, false)
		}
		cex := &CounterEx{Harness: p.h.Name, Assert: id, Inputs: p.model(), Params: p.h.Params, RandomOrder: p.natives["randperm"] != nil,
			Decisions: append([]Decision(nil), p.taken...), Trace: append([]string(nil), p.trace...), Tag: p.tag}
		p.resMu.Lock()
		if len(p.res.CEX) < 200 {
			p.res.CEX = append(p.res.CEX, cex)
		}
		p.resMu.Unlock()
	default:
		atomic.AddInt64(&st.Unknown, 1)
	}
	if c.IsFalse() {
		panic(pathAbort{"done", "assert false"})
	}
	p.addPC(c)
}

func (p *Path) input(name string, s Sort) *Term {
	n := p.inNames[name]
	p.inNames[name] = n + 1
	full := name
	if n > 0 {
		full = fmt.Sprintf("%s#%d", name, n+1)
	}
	v := Var("in!"+full, s)
	p.inputs = append(p.inputs, v)
	return v
}

func (p *Path) freshVar(prefix string, s Sort) *Term {
	p.freshN++
	return Var(fmt.Sprintf("%s!%d", prefix, p.freshN), s)
}

// ---------- globals & package init ----------

func (p *Path) globalAddr(g *ssa.Global) *Value {
	// the sentinels the os file model answers with (whatever the packages' initialisers stored)
	if g.Pkg != nil && (g.Pkg.Pkg.Path() == "os" || g.Pkg.Pkg.Path() == "io/fs") {
		switch g.Name() {
		case "ErrNotExist":
			v := new(Value)
			*v = p.enoent()
			return v
		case "ErrExist":
			v := new(Value)
			*v = p.eexist()
			return v
		}
	}
	if v, ok := p.globals[g]; ok {
		return v
	}
	pkg := g.Pkg
	if pkg != nil && !p.inited[pkg] && shouldRunInit(pkg.Pkg.Path()) {
		p.runInit(pkg)
		if v, ok := p.globals[g]; ok {
			return v
		}
	}
	v := new(Value)
	et := g.Type().Underlying().(*types.Pointer).Elem()
	if isOpaquePkg(typePkgPath(et)) || (pkg != nil && isOpaquePkg(pkg.Pkg.Path())) {
		*v = p.opaqueOf(et, "global "+g.String())
	} else {
		*v = zero(et)
	}
	p.globals[g] = v
	return v
}

func shouldRunInit(path string) bool {
	if strings.HasPrefix(path, "github.com/drand/drand/v2/") && !isOpaquePkg(path) {
		return true
	}
	switch path {
	case "io", "errors", "context", "io/fs", "os", "go.etcd.io/bbolt", "go.etcd.io/bbolt/errors", "encoding/binary", "time", "encoding/hex", "strconv", "unicode/utf8", "net/http", "sort", "bytes", "strings", "math", "syscall":
		return true
	}
	return false
}

// runInit executes the package initializer (variable initialisers only matter to us).
func (p *Path) runInit(pkg *ssa.Package) {
	p.inited[pkg] = true
	initFn := pkg.Func("init")
	if initFn == nil || initFn.Blocks == nil {
		return
	}
	path := pkg.Pkg.Path()
	drand := strings.HasPrefix(path, "github.com/drand/drand/v2/")
	// allocate all globals first
	for _, m := range pkg.Members {
		if g, ok := m.(*ssa.Global); ok {
			if _, ok := p.globals[g]; !ok {
				v := new(Value)
				et := g.Type().Underlying().(*types.Pointer).Elem()
				if isOpaquePkg(typePkgPath(et)) {
					*v = p.opaqueOf(et, "global "+g.String())
				} else {
					*v = zero(et)
				}
				p.globals[g] = v
			}
		}
	}
	if !drand {
		// dependency packages: only run cheap, side-effect free initialisers (error sentinels etc.)
		p.runInitFiltered(initFn)
		return
	}
	saved := p.steps
	defer func() {
		if r := recover(); r != nil {
			if pa, ok := r.(pathAbort); ok && pa.kind == "unsupported" {
				// tolerate partially initialised package; record it
				p.stubs["init-partial:"+path+": "+pa.msg]++
				p.steps = saved
				return
			}
			panic(r)
		}
	}()
	p.runInitFiltered(initFn)
}

// runInitFiltered interprets the init function but skips calls to other packages' init.
func (p *Path) runInitFiltered(initFn *ssa.Function) {
	fr := &Frame{p: p, fn: initFn, env: make(map[ssa.Value]Value, 64)}
	fr.block = initFn.Blocks[0]
	// The synthetic init has the shape: if initdone goto done; initdone=true; call deps' init...; stores; return
	for fr.block != nil {
		jumped := false
		for _, instr := range fr.block.Instrs {
			p.step()
			if c, ok := instr.(*ssa.Call); ok {
				if f, ok := c.Call.Value.(*ssa.Function); ok && f.Name() == "init" && f.Pkg != initFn.Pkg {
					continue // dependency init: done lazily
				}
			}
			func() {
				defer func() {
					if r := recover(); r != nil {
						if pa, ok := r.(pathAbort); ok && pa.kind == "unsupported" {
							p.stubs["init-skip:"+initFn.Pkg.Pkg.Path()+": "+pa.msg]++
							if v, ok := instr.(ssa.Value); ok {
								fr.env[v] = p.opaqueOf(v.Type(), "init-skip")
							}
							return
						}
						if gp, ok := r.(goPanic); ok {
							p.stubs["init-panic:"+initFn.Pkg.Pkg.Path()+": "+gp.msg]++
							if v, ok := instr.(ssa.Value); ok {
								fr.env[v] = p.opaqueOf(v.Type(), "init-skip")
							}
							return
						}
						panic(r)
					}
				}()
				switch fr.visit(instr) {
				case kReturn:
					fr.block = nil
					jumped = true
				case kJump:
					jumped = true
				}
			}()
			if jumped {
				break
			}
		}
		if !jumped {
			break
		}
	}
}

// ---------- running ----------

func (e *Engine) runPath(h *Harness, item workItem, sol *Solver, res *HarnessResult, mu *sync.Mutex) []workItem {
	sol.Reset()
	p := &Path{eng: e, h: h, res: res, resMu: mu, prefix: item.prefix, sol: sol,
		inNames: map[string]int{}, globals: map[*ssa.Global]*Value{}, inited: map[*ssa.Package]bool{},
		mutexes: map[*Value]*mutexState{}, funcs: map[string]bool{}, stubs: map[string]int64{}, reached: map[string]int64{},
		natives: map[string]interface{}{}}
	outcome := p.runHarness()
	atomic.AddInt64(&res.Paths, 1)
	atomic.AddInt64(&res.Steps, p.steps)
	atomic.AddInt64(&res.Approx, int64(sol.approx))
	sol.approx = 0
	mu.Lock()
	for f := range p.funcs {
		res.Funcs[f] = true
	}
	for s, n := range p.stubs {
		res.Stubs[s] += n
	}
	for id, n := range p.reached {
		res.Reached[id] += n
	}
	switch outcome.kind {
	case "done":
		res.Completed++
		if p.assertedHere {
			res.PathsWithAssert++
		}
		if len(res.Samples) < 6 && p.assertedHere {
			// sample: a satisfying input of this path
			if sol.Check(nil, false) == Sat {
				if m := p.model(); m != nil {
					res.Samples = append(res.Samples, map[string]interface{}{"harness": h.Name, "path_decisions": len(p.taken), "path_conjuncts": len(p.pc), "inputs": m, "asserts_reached": keys(p.reached)})
				}
			}
		}
	case "infeasible":
		res.Infeasible++
	case "budget":
		res.Budget++
	case "unsupported":
		res.Unsupported[outcome.msg]++
	}
	mu.Unlock()
	return p.newWork
}

func keys(m map[string]int64) []string {
	var ks []string
	for k := range m {
		ks = append(ks, k)
	}
	sort.Strings(ks)
	return ks
}

func (e *Engine) RunHarness(h *Harness) *HarnessResult {
	t0 := time.Now()
	res := &HarnessResult{Name: h.Name, Unsupported: map[string]int64{}, Asserts: map[string]*AssertStat{}, Reached: map[string]int64{},
		Funcs: map[string]bool{}, Stubs: map[string]int64{}}
	var mu sync.Mutex
	var qmu sync.Mutex
	cond := sync.NewCond(&qmu)
	queue := []workItem{{}}
	active := 0
	started := int64(0)
	timeout := time.Duration(h.TimeoutS) * time.Second
	if timeout == 0 {
		timeout = 10 * time.Second
	}
	if e.verbose {
		stop := make(chan struct{})
		defer close(stop)
		go func() {
			tk := time.NewTicker(15 * time.Second)
			defer tk.Stop()
			for {
				select {
				case <-stop:
					return
				case <-tk.C:
					qmu.Lock()
					ql := len(queue)
					qmu.Unlock()
					fmt.Fprintf(os.Stderr, "  [%s] %.0fs paths=%d completed=%d queue=%d steps=%d cex=%d\n", h.Name, time.Since(t0).Seconds(), atomic.LoadInt64(&res.Paths), res.Completed, ql, atomic.LoadInt64(&res.Steps), len(res.CEX))
				}
			}
		}()
	}
	var wg sync.WaitGroup
	nw := e.workers
	for w := 0; w < nw; w++ {
		wg.Add(1)
		go func() {
			defer wg.Done()
			sk := h.Solver
			if sk == "" {
				sk = "z3"
			}
			sol := NewSolver(sk, h.Arith, timeout)
			sol.usePortfolio = h.Portfolio
			defer sol.Close()
			for {
				qmu.Lock()
				for len(queue) == 0 && active > 0 {
					cond.Wait()
				}
				if len(queue) == 0 && active == 0 {
					qmu.Unlock()
					cond.Broadcast()
					return
				}
				if int(started) >= h.MaxPaths {
					res.MaxPathsHit = true
					queue = nil
					qmu.Unlock()
					cond.Broadcast()
					if active == 0 {
						return
					}
					qmu.Lock()
					for active > 0 {
						cond.Wait()
					}
					qmu.Unlock()
					return
				}
				item := queue[len(queue)-1]
				queue = queue[:len(queue)-1]
				active++
				started++
				qmu.Unlock()
				nw := e.runPath(h, item, sol, res, &mu)
				qmu.Lock()
				active--
				if !res.MaxPathsHit {
					queue = append(queue, nw...)
				}
				qmu.Unlock()
				cond.Broadcast()
			}
		}()
	}
	wg.Wait()
	res.WallS = time.Since(t0).Seconds()
	if e.verbose {
		fmt.Fprintf(os.Stderr, "harness %s: paths=%d completed=%d infeasible=%d unsupported=%d budget=%d cex=%d wall=%.1fs\n",
			h.Name, res.Paths, res.Completed, res.Infeasible, len(res.Unsupported), res.Budget, len(res.CEX), res.WallS)
	}
	return res
}
