package main

import (
	"fmt"
	"go/token"
	"go/types"

	"golang.org/x/tools/go/ssa"
)

// Cooperative scheduler: modelled goroutines are real goroutines, exactly one
// holds the baton at any time.

type G struct {
	id        int
	name      string
	resume    chan bool
	wait      func() bool
	waitWhy   string
	done      bool
	started   bool
	crashed   *goPanic
	watchdog  bool
	inQuiesce bool
	killed    bool
	fn        Value
	args      []Value
}

type Sched struct {
	gs    []*G
	cur   *G
	back  chan struct{}
	fatal interface{} // pathAbort raised inside a coroutine
}

type outcome struct {
	kind string
	msg  string
}

type ChanObj struct {
	Buf         []Value
	Cap         int
	Closed      bool
	sendq       []*sendItem
	recvWaiting int
	id          int
}

type sendItem struct {
	v     Value
	taken bool
}

type mutexState struct {
	locked  bool
	owner   *G
	readers int
	rowners map[*G]int
}

type abortG struct{}

func (p *Path) runHarness() (out outcome) {
	s := &Sched{back: make(chan struct{})}
	p.sched = s
	g0 := &G{id: 0, name: "harness", resume: make(chan bool)}
	s.gs = append(s.gs, g0)
	g0.fn = p.h.Fn
	p.startG(g0)
	out = outcome{kind: "done"}
	for {
		g := s.pick()
		if g == nil {
			if !g0.done {
				// every goroutine is blocked: deadlock visible to the harness goroutine
				p.resMu.Lock()
				p.res.Deadlocks++
				p.resMu.Unlock()
				p.reportBlocked(g0)
			}
			break
		}
		s.cur = g
		g.resume <- true
		<-s.back
		if s.fatal != nil {
			break
		}
		if g0.done {
			break
		}
	}
	// tear down parked coroutines
	for _, g := range s.gs {
		if g.started && !g.done {
			g.resume <- false
			<-s.back
		}
	}
	if s.fatal != nil {
		pa := s.fatal.(pathAbort)
		if pa.kind == "done" {
			return outcome{kind: "done"}
		}
		return outcome{kind: pa.kind, msg: pa.msg}
	}
	return out
}

func (p *Path) reportBlocked(g0 *G) {
	// The harness goroutine can never make progress: this is the wedge the engine reports itself.
	why := g0.waitWhy
	st := p.stat("engine:no_deadlock")
	st.Checked++
	st.Violated++
	p.reached["engine:no_deadlock"]++
	p.sol.Check(nil, false)
	cex := &CounterEx{Harness: p.h.Name, Assert: "engine:no_deadlock", Inputs: p.model(), Params: p.h.Params, RandomOrder: p.natives["randperm"] != nil,
		Decisions: append([]Decision(nil), p.taken...), Note: "harness goroutine blocked forever: " + why, Trace: append([]string(nil), p.trace...), Tag: p.tag}
	p.resMu.Lock()
	if len(p.res.CEX) < 200 {
		p.res.CEX = append(p.res.CEX, cex)
	}
	p.resMu.Unlock()
}

func (s *Sched) pick() *G {
	// prefer the current goroutine, then round-robin by id
	n := len(s.gs)
	start := 0
	if s.cur != nil {
		start = s.cur.id
	}
	for k := 0; k < n; k++ {
		g := s.gs[(start+k)%n]
		if g.done {
			continue
		}
		if g.wait == nil || g.wait() {
			return g
		}
	}
	return nil
}

func (p *Path) startG(g *G) {
	g.started = true
	s := p.sched
	go func() {
		ok := <-g.resume
		defer func() {
			r := recover()
			g.done = true
			if r != nil {
				switch x := r.(type) {
				case abortG:
				case pathAbort:
					if s.fatal == nil {
						s.fatal = x
					}
				case crashSignal:
					// a crash point fired in a goroutine other than the one inside RunUntilCrash
					if s.fatal == nil {
						s.fatal = pathAbort{"unsupported", "crash point reached outside zz.RunUntilCrash (" + x.at + ")"}
					}
				case goPanic:
					// panic escaped a goroutine: process crash
					g.crashed = &x
					if s.fatal == nil {
						p.recordCrash(g, x)
						s.fatal = pathAbort{"done", "crash"}
					}
				default:
					if s.fatal == nil {
						s.fatal = pathAbort{"unsupported", fmt.Sprintf("interpreter fault: %v", r)}
					}
				}
			}
			s.back <- struct{}{}
		}()
		if !ok {
			panic(abortG{})
		}
		p.call(g.fn, g.args, nil, token.NoPos)
	}()
}

func (p *Path) recordCrash(g *G, gp goPanic) {
	id := "engine:no_crash"
	st := p.stat(id)
	st.Checked++
	st.Violated++
	p.reached[id]++
	p.resMu.Lock()
	p.res.Panics++
	p.resMu.Unlock()
	p.sol.Check(nil, false)
	cex := &CounterEx{Harness: p.h.Name, Assert: id, Inputs: p.model(), Params: p.h.Params, RandomOrder: p.natives["randperm"] != nil,
		Decisions: append([]Decision(nil), p.taken...), Note: fmt.Sprintf("panic escaped goroutine %d (%s): %s", g.id, g.name, gp.msg), Trace: append([]string(nil), p.trace...), Tag: p.tag}
	p.resMu.Lock()
	if len(p.res.CEX) < 200 {
		p.res.CEX = append(p.res.CEX, cex)
	}
	p.resMu.Unlock()
}

func (p *Path) spawn(fn Value, args []Value, pos token.Pos) {
	s := p.sched
	g := &G{id: len(s.gs), resume: make(chan bool), fn: fn, args: args}
	switch f := fn.(type) {
	case *ssa.Function:
		g.name = f.String()
	case *Closure:
		g.name = f.Fn.String()
	}
	s.gs = append(s.gs, g)
	p.startG(g)
}

// yield hands the baton back to the scheduler.
func (p *Path) yield() {
	g := p.sched.cur
	p.sched.back <- struct{}{}
	ok := <-g.resume
	if !ok {
		panic(abortG{})
	}
}

func (p *Path) block(why string, cond func() bool) {
	g := p.sched.cur
	for !cond() {
		g.wait = cond
		g.waitWhy = why
		p.yield()
	}
	g.wait = nil
	g.waitWhy = ""
}

// Yield lets every other runnable goroutine run until they all block.
func (p *Path) Quiesce() {
	g := p.sched.cur
	othersRunnable := func() bool {
		for _, o := range p.sched.gs {
			if o != g && !o.done && (o.wait == nil || o.wait()) {
				return true
			}
		}
		return false
	}
	g.inQuiesce = true
	defer func() { g.inQuiesce = false }()
	for othersRunnable() {
		// make ourselves non-preferred: wait until no other goroutine is runnable
		g.wait = func() bool { return !othersRunnable() }
		g.waitWhy = "quiesce"
		p.yield()
		g.wait = nil
	}
}

func (p *Path) numBlocked() int {
	n := 0
	for _, o := range p.sched.gs {
		if o != p.sched.cur && !o.done && o.wait != nil && !o.wait() {
			n++
		}
	}
	return n
}

// maybePreempt: context-bounded schedule exploration. At a synchronisation point the running goroutine may be
// preempted in favour of another runnable one; at most h.Preemptions such switches per path (n-ary choice,
// no solver involved). Without a bound (0) the canonical schedule is used.
func (p *Path) maybePreempt() {
	if p.h.Preemptions == 0 || p.preemptUsed >= p.h.Preemptions || p.sched == nil || p.sched.cur == nil {
		return
	}
	g := p.sched.cur
	other := false
	for _, o := range p.sched.gs {
		if o != g && !o.done && !o.watchdog && (o.wait == nil || o.wait()) {
			other = true
			break
		}
	}
	if !other {
		return
	}
	if p.ChooseN(2) == 1 {
		p.preemptUsed++
		first := true
		g.wait = func() bool {
			if first {
				first = false
				return false
			}
			return true
		}
		g.waitWhy = "preempted"
		p.yield()
		g.wait = nil
	}
}

// ---------- channels ----------

func (p *Path) chanSend(cv Value, v Value) {
	p.maybePreempt()
	ch := cv.(*ChanObj)
	if ch == nil {
		p.block("send on nil channel", func() bool { return false })
	}
	if ch.Closed {
		p.goPanicStr("send on closed channel")
	}
	if ch.Cap > 0 {
		p.block(fmt.Sprintf("send on full channel #%d (cap %d)", ch.id, ch.Cap), func() bool { return len(ch.Buf) < ch.Cap || ch.Closed })
		if ch.Closed {
			p.goPanicStr("send on closed channel")
		}
		ch.Buf = append(ch.Buf, copyVal(v))
		return
	}
	it := &sendItem{v: copyVal(v)}
	ch.sendq = append(ch.sendq, it)
	p.block(fmt.Sprintf("send on unbuffered channel #%d", ch.id), func() bool { return it.taken || ch.Closed })
	if !it.taken && ch.Closed {
		p.goPanicStr("send on closed channel")
	}
}

func (ch *ChanObj) canRecv() bool {
	return len(ch.Buf) > 0 || len(ch.sendq) > 0 || ch.Closed
}

func (ch *ChanObj) take() (Value, bool) {
	if len(ch.Buf) > 0 {
		v := ch.Buf[0]
		ch.Buf = ch.Buf[1:]
		return v, true
	}
	if len(ch.sendq) > 0 {
		it := ch.sendq[0]
		ch.sendq = ch.sendq[1:]
		it.taken = true
		return it.v, true
	}
	return nil, false // closed
}

func (p *Path) chanRecv(cv Value) (Value, bool) {
	p.maybePreempt()
	ch := cv.(*ChanObj)
	if ch == nil {
		p.block("receive on nil channel", func() bool { return false })
	}
	if !ch.canRecv() {
		ch.recvWaiting++
		p.block(fmt.Sprintf("receive on empty channel #%d", ch.id), ch.canRecv)
		ch.recvWaiting--
	}
	return ch.take()
}

func (p *Path) chanClose(cv Value) {
	ch := cv.(*ChanObj)
	if ch == nil {
		p.goPanicStr("close of nil channel")
	}
	if ch.Closed {
		p.goPanicStr("close of closed channel")
	}
	ch.Closed = true
}

func (p *Path) selectOp(in *ssa.Select, fr *Frame) Value {
	type st struct {
		ch   *ChanObj
		send bool
		v    Value
	}
	states := make([]st, len(in.States))
	for i, s := range in.States {
		states[i].ch = fr.get(s.Chan).(*ChanObj)
		states[i].send = s.Dir == types.SendOnly
		if states[i].send {
			states[i].v = fr.get(s.Send)
		}
	}
	ready := func() []int {
		var r []int
		for i, s := range states {
			if s.ch == nil {
				continue
			}
			if s.send {
				if s.ch.Closed || (s.ch.Cap > 0 && len(s.ch.Buf) < s.ch.Cap) || (s.ch.Cap == 0 && s.ch.recvWaiting > 0) {
					r = append(r, i)
				}
			} else if s.ch.canRecv() {
				r = append(r, i)
			}
		}
		return r
	}
	r := ready()
	if len(r) == 0 {
		if !in.Blocking {
			return p.selectResult(in, -1, nil, false)
		}
		for _, s := range states {
			if s.ch != nil && !s.send {
				s.ch.recvWaiting++
			}
		}
		p.block("select with no ready case", func() bool { return len(ready()) > 0 })
		for _, s := range states {
			if s.ch != nil && !s.send {
				s.ch.recvWaiting--
			}
		}
		r = ready()
	}
	pick := r[0]
	if len(r) > 1 && p.h.SelectChoice {
		pick = r[p.ChooseN(len(r))]
	}
	s := states[pick]
	if s.send {
		if s.ch.Closed {
			p.goPanicStr("send on closed channel")
		}
		if s.ch.Cap > 0 {
			s.ch.Buf = append(s.ch.Buf, copyVal(s.v))
		} else {
			s.ch.sendq = append(s.ch.sendq, &sendItem{v: copyVal(s.v), taken: false})
		}
		return p.selectResult(in, pick, nil, false)
	}
	v, ok := s.ch.take()
	return p.selectResult(in, pick, v, ok)
}

func (p *Path) selectResult(in *ssa.Select, idx int, recv Value, ok bool) Value {
	res := Tuple{BVC(uint64(int64(idx)), 64), BoolC(ok)}
	for i, s := range in.States {
		if s.Dir == types.RecvOnly {
			et := s.Chan.Type().Underlying().(*types.Chan).Elem()
			if i == idx && recv != nil {
				res = append(res, recv)
			} else {
				res = append(res, zero(et))
			}
		}
	}
	return res
}

// ---------- mutexes ----------

func (p *Path) mutex(ptr *Value) *mutexState {
	m := p.mutexes[ptr]
	if m == nil {
		m = &mutexState{rowners: map[*G]int{}}
		p.mutexes[ptr] = m
	}
	return m
}

func (p *Path) mutexLock(ptr *Value) {
	p.maybePreempt()
	if ptr == nil {
		p.goPanicStr("nil pointer dereference (Mutex.Lock)")
	}
	m := p.mutex(ptr)
	g := p.sched.cur
	why := "Lock of a held mutex"
	if m.locked && m.owner == g {
		why = "self-deadlock: Lock of a mutex already held by this goroutine"
	} else if m.rowners[g] > 0 {
		why = "self-deadlock: Lock of a RWMutex read-held by this goroutine"
	}
	p.block(why, func() bool { return !m.locked && m.readers == 0 })
	m.locked = true
	m.owner = g
}

func (p *Path) mutexUnlock(ptr *Value) {
	defer p.maybePreempt()
	m := p.mutex(ptr)
	if !m.locked {
		p.fatalGo("sync: unlock of unlocked mutex")
	}
	m.locked = false
	m.owner = nil
}

func (p *Path) mutexTryLock(ptr *Value) bool {
	m := p.mutex(ptr)
	if m.locked || m.readers > 0 {
		return false
	}
	m.locked = true
	m.owner = p.sched.cur
	return true
}

func (p *Path) mutexRLock(ptr *Value) {
	p.maybePreempt()
	m := p.mutex(ptr)
	g := p.sched.cur
	why := "RLock of a write-held RWMutex"
	if m.locked && m.owner == g {
		why = "self-deadlock: RLock of a RWMutex write-held by this goroutine"
	}
	p.block(why, func() bool { return !m.locked })
	m.readers++
	m.rowners[g]++
}

func (p *Path) mutexRUnlock(ptr *Value) {
	defer p.maybePreempt()
	m := p.mutex(ptr)
	if m.readers == 0 {
		p.fatalGo("sync: RUnlock of unlocked RWMutex")
	}
	m.readers--
	// the releasing goroutine may differ from the locker in Go; attribute to any holder
	g := p.sched.cur
	if m.rowners[g] > 0 {
		m.rowners[g]--
	} else {
		for k, n := range m.rowners {
			if n > 0 {
				m.rowners[k]--
				break
			}
		}
	}
}

// fatalGo models runtime.fatal / throw: not recoverable, the process dies.
func (p *Path) fatalGo(msg string) {
	g := p.sched.cur
	gp := goPanic{msg: "fatal error: " + msg}
	p.recordCrash(g, gp)
	panic(pathAbort{"done", "fatal"})
}

// heldLocks lists mutexes held by (or attributed to) goroutine g.
func (p *Path) heldLocks(g *G) int {
	n := 0
	for _, m := range p.mutexes {
		if m.locked && m.owner == g {
			n++
		}
		if m.rowners[g] > 0 {
			n++
		}
	}
	return n
}
