package main

import (
	"fmt"
	"strings"

	"golang.org/x/tools/go/ssa"
)

// Secrecy (C15): secrets are named inputs "secret.*". A value "depends on a secret" when its term DAG contains
// such a variable. Outputs of the modelled hash / signature functions are fresh variables, so legitimate
// uses of a secret inside the crypto (public-key derivation, signing) are declassified by construction.

func termHasSecret(t *Term, seen map[*Term]bool) bool {
	if t == nil || seen[t] {
		return false
	}
	seen[t] = true
	if t.Op == OpVar {
		return strings.HasPrefix(t.Name, "in!secret.")
	}
	for _, a := range t.Args {
		if termHasSecret(a, seen) {
			return true
		}
	}
	return false
}

func (p *Path) valueHasSecret(v Value, seenT map[*Term]bool, seenP map[*Value]bool, depth int) bool {
	if depth > 40 {
		return false
	}
	switch x := v.(type) {
	case *Term:
		return termHasSecret(x, seenT)
	case Str:
		if x.Secret {
			return true
		}
		for _, b := range x.Sym {
			if termHasSecret(b, seenT) {
				return true
			}
		}
		if x.Sym == nil && strings.HasPrefix(x.C, codecMagic) {
			if e := p.codecLookup(x.Bytes()); e != nil {
				return p.valueHasSecret(e.val, seenT, seenP, depth+1)
			}
		}
	case Struct:
		for _, f := range x {
			if p.valueHasSecret(f, seenT, seenP, depth+1) {
				return true
			}
		}
	case Array:
		for _, f := range x {
			if p.valueHasSecret(f, seenT, seenP, depth+1) {
				return true
			}
		}
	case Tuple:
		for _, f := range x {
			if p.valueHasSecret(f, seenT, seenP, depth+1) {
				return true
			}
		}
	case Slice:
		// a byte slice may be a codec token
		if len(x.A) > len(codecMagic) {
			if bs, ok := tryBytes(x); ok {
				for _, e := range p.codecTokensIn(bs) {
					if p.valueHasSecret(e.val, seenT, seenP, depth+1) {
						return true
					}
				}
			}
		}
		for _, f := range x.A {
			if p.valueHasSecret(f, seenT, seenP, depth+1) {
				return true
			}
		}
	case *Value:
		if x == nil || seenP[x] {
			return false
		}
		seenP[x] = true
		return p.valueHasSecret(*x, seenT, seenP, depth+1)
	case Iface:
		if x.T == nil {
			return false
		}
		return p.valueHasSecret(x.V, seenT, seenP, depth+1)
	case *MapObj:
		if x == nil {
			return false
		}
		for i := range x.Keys {
			if p.valueHasSecret(x.Keys[i], seenT, seenP, depth+1) || p.valueHasSecret(x.Vals[i], seenT, seenP, depth+1) {
				return true
			}
		}
	case *Native:
		switch d := x.Data.(type) {
		case *scalarObj:
			for _, b := range d.tag {
				if termHasSecret(b, seenT) {
					return true
				}
			}
		case *pointObj:
			for _, b := range d.tag {
				if termHasSecret(b, seenT) {
					return true
				}
			}
		case *ErrObj:
			if p.valueHasSecret(d.Msg, seenT, seenP, depth+1) {
				return true
			}
			for _, w := range d.Wrapped {
				if p.valueHasSecret(w, seenT, seenP, depth+1) {
					return true
				}
			}
		case *jnode:
			return p.jnodeHasSecret(d, seenT, seenP, depth+1)
		}
	}
	return false
}

func (p *Path) jnodeHasSecret(n *jnode, seenT map[*Term]bool, seenP map[*Value]bool, depth int) bool {
	if n == nil || depth > 40 {
		return false
	}
	if n.t != nil && termHasSecret(n.t, seenT) {
		return true
	}
	if p.valueHasSecret(n.s, seenT, seenP, depth+1) {
		return true
	}
	for _, b := range n.bs {
		if termHasSecret(b, seenT) {
			return true
		}
	}
	for _, e := range n.elems {
		if p.jnodeHasSecret(e, seenT, seenP, depth+1) {
			return true
		}
	}
	for _, e := range n.vals {
		if p.jnodeHasSecret(e, seenT, seenP, depth+1) {
			return true
		}
	}
	return n.opaque != nil && p.valueHasSecret(n.opaque, seenT, seenP, depth+1)
}

func tryBytes(s Slice) ([]*Term, bool) {
	out := make([]*Term, len(s.A))
	for i, e := range s.A {
		t, ok := e.(*Term)
		if !ok || t.S.K != SBV || t.S.W != 8 {
			return nil, false
		}
		out[i] = t
	}
	return out, true
}

func (p *Path) hasSecret(v Value) bool {
	return p.valueHasSecret(v, map[*Term]bool{}, map[*Value]bool{}, 0)
}

// ---------- os file model ----------

type fileState struct {
	path        string
	mode        uint64
	exists      bool
	writes      []Value // values written
	leaked      bool    // secret-dependent content was written while group/other bits were set
	secret      bool
	stale       bool // bytes of an earlier, longer content remain after the current one
	overwriting bool
	oldSize     int
	isDir       bool // a directory sits at this path: it cannot be created, opened for writing or written as a file
}

func (p *Path) files() map[string]*fileState {
	m, ok := p.natives["files"].(map[string]*fileState)
	if !ok {
		m = map[string]*fileState{}
		p.natives["files"] = m
	}
	return m
}

func (p *Path) fileAt(path string) *fileState {
	m := p.files()
	f, ok := m[path]
	if !ok {
		f = &fileState{path: path}
		m[path] = f
	}
	return f
}

func (p *Path) fileWrite(f *fileState, v Value) {
	f.writes = append(f.writes, v)
	if p.hasSecret(v) {
		f.secret = true
		if f.mode&0o077 != 0 {
			f.leaked = true
		}
	}
}

func init() {
	z := func(n string, f intrinsicFn) { reg(zzPkg+"."+n, f) }
	z("SecretBytes", func(p *Path, fn *ssa.Function, a []Value) Value {
		name := strArg(p, a[0])
		n := p.concInt(a[1].(*Term))
		out := make([]Value, n)
		for i := 0; i < n; i++ {
			out[i] = p.input(fmt.Sprintf("secret.%s[%d]", name, i), BV(8))
		}
		return Slice{A: out}
	})
	// Observe(tag, v): v leaves the node (response, packet, log line). It must not depend on a secret.
	z("Observe", func(p *Path, fn *ssa.Function, a []Value) Value {
		tag := strArg(p, a[0])
		leak := p.hasSecret(a[1])
		p.Assert("no_secret_in_"+tag, BoolC(!leak))
		return nil
	})
	z("LogsAreClean", func(p *Path, fn *ssa.Function, a []Value) Value {
		for _, v := range p.logArgs {
			if p.hasSecret(v) {
				return FalseT
			}
		}
		return TrueT
	})
	z("LogTextIsClean", func(p *Path, fn *ssa.Function, a []Value) Value {
		for _, v := range p.logArgs {
			if p.hasSecret(v) {
				return FalseT
			}
		}
		return TrueT
	})
	// SecretFilesAreOwnerOnly: every modelled file (os or bbolt) that received secret-dependent content was
	// owner-only at the time of the write.
	z("SecretFilesAreOwnerOnly", func(p *Path, fn *ssa.Function, a []Value) Value {
		ok := true
		for _, f := range p.files() {
			if f.leaked {
				ok = false
			}
		}
		if p.natives["boltleak"] != nil {
			ok = false
		}
		return BoolC(ok)
	})
	z("SecretFileCount", func(p *Path, fn *ssa.Function, a []Value) Value {
		n := 0
		for _, f := range p.files() {
			if f.secret {
				n++
			}
		}
		if p.natives["boltsecret"] != nil {
			n++
		}
		return BVC(uint64(n), 64)
	})

	osFile := func(p *Path, fn *ssa.Function, path string) *Value {
		ptr := new(Value)
		*ptr = Value(&Native{Kind: "os:file", Data: p.fileAt(path)})
		return ptr
	}
	reg("os.Mkdir", func(p *Path, fn *ssa.Function, a []Value) Value {
		path := strArg(p, a[0])
		f := p.fileAt(path)
		if f.exists || f.isDir {
			return p.eexist()
		}
		f.isDir = true
		p.fsNoteOpen("dir:"+path, a[1])
		return Iface{}
	})
	reg("os.Create", func(p *Path, fn *ssa.Function, a []Value) Value {
		path := strArg(p, a[0])
		f := p.fileAt(path)
		if f.isDir {
			return Tuple{(*Value)(nil), p.newError(StrC("open "+path+": is a directory"), nil)}
		}
		if !f.exists {
			f.mode = 0o666 &^ 0o022 // umask 022
		}
		f.exists = true
		f.writes, f.stale, f.overwriting = nil, false, false // truncated
		p.crashPoint("os.Create:" + path)
		return Tuple{osFile(p, fn, path), Iface{}}
	})
	reg("os.WriteFile", func(p *Path, fn *ssa.Function, a []Value) Value {
		path := strArg(p, a[0])
		f := p.fileAt(path)
		if f.isDir {
			return p.newError(StrC("open "+path+": is a directory"), nil)
		}
		if !f.exists {
			f.mode = uint64(p.concInt(a[2].(*Term))) &^ 0o022
		}
		f.exists = true
		f.writes, f.stale, f.overwriting = nil, false, false
		p.fileWrite(f, a[1])
		return Iface{}
	})
	reg("(*os.File).Chmod", func(p *Path, fn *ssa.Function, a []Value) Value {
		ptr := a[0].(*Value)
		if ptr == nil {
			p.goPanicStr("nil *os.File")
		}
		f := (*ptr).(*Native).Data.(*fileState)
		f.mode = uint64(p.concInt(a[1].(*Term)))
		return Iface{}
	})
	reg("os.IsExist", func(p *Path, fn *ssa.Function, a []Value) Value {
		return equals(a[0], p.eexist())
	})
	reg("os.Chmod", func(p *Path, fn *ssa.Function, a []Value) Value {
		f := p.fileAt(strArg(p, a[0]))
		f.mode = uint64(p.concInt(a[1].(*Term)))
		return Iface{}
	})
	fileOf := func(p *Path, v Value) *fileState {
		ptr := v.(*Value)
		if ptr == nil {
			p.goPanicStr("nil *os.File")
		}
		nat, ok := (*ptr).(*Native)
		if !ok {
			p.unsupported("os.File not created by the model")
		}
		return nat.Data.(*fileState)
	}
	reg("(*os.File).Write", func(p *Path, fn *ssa.Function, a []Value) Value {
		f := fileOf(p, a[0])
		p.crashPoint("write:" + f.path)
		p.fileWrite(f, a[1])
		return Tuple{BVC(uint64(len(a[1].(Slice).A)), 64), Iface{}}
	})
	reg("(*os.File).WriteString", func(p *Path, fn *ssa.Function, a []Value) Value {
		f := fileOf(p, a[0])
		p.fileWrite(f, a[1])
		return Tuple{BVC(uint64(a[1].(Str).Len()), 64), Iface{}}
	})
	reg("(*os.File).Close", func(p *Path, fn *ssa.Function, a []Value) Value { return Iface{} })
	reg("(*os.File).Sync", func(p *Path, fn *ssa.Function, a []Value) Value { return Iface{} })
	reg("(*os.File).Name", func(p *Path, fn *ssa.Function, a []Value) Value { return StrC(fileOf(p, a[0]).path) })
	reg("os.RemoveAll", func(p *Path, fn *ssa.Function, a []Value) Value {
		path := strArg(p, a[0])
		for k, f := range p.files() {
			if k == path || strings.HasPrefix(k, path+"/") {
				f.exists, f.writes, f.isDir = false, nil, false
			}
		}
		return Iface{}
	})
	reg("os.Remove", intrinsics["os.RemoveAll"])
	// reading files back: the content of a modelled file is the list of values written to it, so a copy keeps
	// both the bytes and their dependence on secrets
	reg("os.Open", func(p *Path, fn *ssa.Function, a []Value) Value {
		path := strArg(p, a[0])
		f, ok := p.files()[path]
		if !ok || !f.exists {
			return Tuple{(*Value)(nil), p.enoent()}
		}
		return Tuple{osFile(p, fn, path), Iface{}}
	})
	fileBytes := func(p *Path, f *fileState) Value {
		var out []Value
		for _, w := range f.writes {
			switch x := w.(type) {
			case Slice:
				out = append(out, x.A...)
			case Str:
				for _, b := range x.Bytes() {
					out = append(out, b)
				}
			default:
				p.unsupported("file content of type %T", w)
			}
		}
		return Slice{A: out}
	}
	reg("os.ReadFile", func(p *Path, fn *ssa.Function, a []Value) Value {
		path := strArg(p, a[0])
		f, ok := p.files()[path]
		if !ok || !f.exists {
			return Tuple{Slice{}, p.enoent()}
		}
		if len(f.writes) == 1 {
			if sl, ok := f.writes[0].(Slice); ok {
				return Tuple{sl, Iface{}}
			}
		}
		return Tuple{fileBytes(p, f), Iface{}}
	})
	reg("io.ReadAll", func(p *Path, fn *ssa.Function, a []Value) Value {
		r := a[0].(Iface)
		ptr, ok := r.V.(*Value)
		if !ok || ptr == nil {
			p.unsupported("io.ReadAll of %v", r.T)
		}
		nat, ok := (*ptr).(*Native)
		if !ok || nat.Kind != "os:file" {
			p.unsupported("io.ReadAll of %v", r.T)
		}
		f := nat.Data.(*fileState)
		if len(f.writes) == 1 {
			if sl, ok := f.writes[0].(Slice); ok {
				return Tuple{sl, Iface{}}
			}
		}
		return Tuple{fileBytes(p, f), Iface{}}
	})
	reg("io.Copy", func(p *Path, fn *ssa.Function, a []Value) Value {
		modelled := func(v Value) *fileState {
			i, ok := v.(Iface)
			if !ok {
				return nil
			}
			ptr, ok := i.V.(*Value)
			if !ok || ptr == nil {
				return nil
			}
			nat, ok := (*ptr).(*Native)
			if !ok || nat.Kind != "os:file" {
				return nil
			}
			return nat.Data.(*fileState)
		}
		dst, src := modelled(a[0]), modelled(a[1])
		if dst == nil || src == nil {
			p.unsupported("io.Copy between values that are not modelled files")
		}
		n := 0
		for _, w := range append([]Value(nil), src.writes...) {
			p.crashPoint("write:" + dst.path)
			p.fileWrite(dst, w)
			n += deepSize(w, 0)
		}
		return Tuple{BVC(uint64(n), 64), Iface{}}
	})
	reg("os.Rename", func(p *Path, fn *ssa.Function, a []Value) Value {
		from, to := strArg(p, a[0]), strArg(p, a[1])
		f, ok := p.files()[from]
		if !ok || !f.exists {
			return p.enoent()
		}
		p.crashPoint("rename:" + to)
		m := p.files()
		nf := *f
		nf.path = to
		m[to] = &nf
		f.exists, f.writes = false, nil
		return Iface{}
	})
	z("FileMode", func(p *Path, fn *ssa.Function, a []Value) Value {
		path := strArg(p, a[0])
		if f, ok := p.files()[path]; ok && f.exists {
			return BVC(f.mode, 32)
		}
		for _, o := range p.fileOpens {
			if o.Path == path && o.Mode.IsConst() {
				return BVC(o.Mode.Val&^0o022, 32)
			}
		}
		return BVC(0xffffffff, 32)
	})
}

// ---------- more of the os model: existence, stat, non-truncating opens, toml.DecodeFile ----------

func (p *Path) eexist() Value {
	if v, ok := p.natives["eexist"]; ok {
		return v.(Value)
	}
	e := p.newError(StrC("file exists"), nil)
	p.natives["eexist"] = e
	return e
}

func (p *Path) enoent() Value {
	if v, ok := p.natives["enoent"]; ok {
		return v.(Value)
	}
	e := p.newError(StrC("no such file or directory"), nil)
	p.natives["enoent"] = e
	return e
}

// deepSize is an abstract "encoded length" of a value: the number of scalar leaves. It only serves to decide
// whether an in-place overwrite (open without O_TRUNC) leaves a stale tail of the previous content.
func deepSize(v Value, depth int) int {
	if depth > 40 {
		return 1
	}
	switch x := v.(type) {
	case Struct:
		n := 0
		for _, f := range x {
			n += deepSize(f, depth+1)
		}
		return n
	case Array:
		n := 0
		for _, f := range x {
			n += deepSize(f, depth+1)
		}
		return n
	case Slice:
		n := 1
		for _, f := range x.A {
			n += deepSize(f, depth+1)
		}
		return n
	case *Value:
		if x == nil {
			return 1
		}
		return deepSize(*x, depth+1)
	case Iface:
		if x.T == nil {
			return 1
		}
		return deepSize(x.V, depth+1)
	case Str:
		return 1 + x.Len()
	}
	return 1
}

func (p *Path) fileContentSize(f *fileState) int {
	n := 0
	for _, w := range f.writes {
		if sl, ok := w.(Slice); ok {
			if bs, ok := tryBytes(sl); ok {
				if e := p.codecLookup(bs); e != nil {
					n += deepSize(e.val, 0)
					continue
				}
			}
		}
		n += deepSize(w, 0)
	}
	return n
}

func init() {
	reg("os.Stat", func(p *Path, fn *ssa.Function, a []Value) Value {
		path := strArg(p, a[0])
		exists := false
		if f, ok := p.files()[path]; ok && f.exists {
			exists = true
		}
		for _, o := range p.fileOpens {
			if o.Path == "dir:"+path || o.Path == path {
				exists = true
			}
		}
		for k, f := range p.files() {
			if f.exists && strings.HasPrefix(k, path+"/") {
				exists = true
			}
		}
		if !exists {
			return Tuple{Iface{}, p.enoent()}
		}
		return Tuple{Iface{T: p.eng.opaqueT, V: &Native{Kind: "opaque", Data: "fileinfo"}}, Iface{}}
	})
	reg("os.Lstat", intrinsics["os.Stat"])
	reg("os.IsNotExist", func(p *Path, fn *ssa.Function, a []Value) Value {
		return equals(a[0], p.enoent())
	})
	// os.OpenFile with explicit flags: O_CREATE 0x40, O_TRUNC 0x200 (linux)
	reg("os.OpenFile", func(p *Path, fn *ssa.Function, a []Value) Value {
		path := strArg(p, a[0])
		flags := p.concInt(a[1].(*Term))
		f := p.fileAt(path)
		if f.isDir && flags&3 != 0 {
			return Tuple{(*Value)(nil), p.newError(StrC("open "+path+": is a directory"), nil)}
		}
		if f.exists && flags&0x40 != 0 && flags&0x80 != 0 { // O_CREATE|O_EXCL on an existing file
			return Tuple{(*Value)(nil), p.eexist()}
		}
		if !f.exists {
			if flags&0x40 == 0 {
				return Tuple{(*Value)(nil), p.enoent()}
			}
			f.mode = uint64(p.concInt(a[2].(*Term))) &^ 0o022
			f.exists = true
		}
		if flags&0x200 != 0 {
			f.writes, f.stale = nil, false
		} else if flags&3 != 0 && len(f.writes) > 0 {
			// opened for writing without truncation: the old content stays until overwritten
			f.oldSize = p.fileContentSize(f)
			f.writes = nil
			f.overwriting = true
		}
		ptr := new(Value)
		*ptr = Value(&Native{Kind: "os:file", Data: f})
		return Tuple{ptr, Iface{}}
	})
	reg("github.com/BurntSushi/toml.DecodeFile", func(p *Path, fn *ssa.Function, a []Value) Value {
		path := strArg(p, a[0])
		md := zero(fn.Signature.Results().At(0).Type())
		f, ok := p.files()[path]
		if !ok || !f.exists {
			return Tuple{md, p.enoent()}
		}
		if f.overwriting && p.fileContentSize(f) < f.oldSize {
			f.stale = true
		}
		if f.stale {
			return Tuple{md, p.newError(StrC("toml: stale bytes of the previous content follow the document"), nil)}
		}
		if len(f.writes) != 1 {
			return Tuple{md, p.newError(StrC("toml: cannot decode (empty or multi-part file)"), nil)}
		}
		bs, ok2 := tryBytes(f.writes[0].(Slice))
		if !ok2 {
			return Tuple{md, p.newError(StrC("toml: cannot decode"), nil)}
		}
		e := p.codecLookup(bs)
		if e == nil || !p.decodeInto(e, a[1]) {
			return Tuple{md, p.newError(StrC("toml: cannot decode"), nil)}
		}
		return Tuple{md, Iface{}}
	})
}
