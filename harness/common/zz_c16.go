package common

import (
	"math"
	"time"

	zz "github.com/drand/drand/v2/internal/zzverif"
)

func init() {
	zz.Register("ZZ_C16_currentNext", ZZ_C16_currentNext)
	zz.Register("ZZ_C16_timeOfRound", ZZ_C16_timeOfRound)
}

// zzPeriod returns the period in seconds: symbolic in [1, 2^32-1] or the constant given by the variant.
func zzPeriod() uint64 {
	if c := zz.Param("period", 0); c != 0 {
		return uint64(c)
	}
	p := uint64(zz.U32("period_s")) // every 32-bit value: 1 s .. 2^32-1 s
	zz.Assume(p >= 1)
	return p
}

// zzGenesis: genesis in [0, 2^32] (2^32 itself is the "genesis_top" variant).
func zzGenesis() int64 {
	if zz.Param("genesis_top", 0) == 1 {
		return 1 << 32
	}
	return int64(zz.U32("genesis"))
}

// ZZ_C16_currentNext: CurrentRound / NextRound against the exact integer schedule
// T(r) = genesis + (r-1)*p. Reference model: r-1 = floor((now-genesis)/p) (integer division),
// which is equivalent to T(r) <= now < T(r+1).
func ZZ_C16_currentNext() {
	p := zzPeriod()
	genesis := zzGenesis()
	// now = genesis + elapsed, elapsed in [0, 2^50] (structurally bounded so that the encoder sees the range)
	elapsed := zz.U64("elapsed") & (1<<50 - 1)
	if zz.Param("elapsed_top", 0) == 1 {
		elapsed = 1 << 50
	}
	now := genesis + int64(elapsed)
	period := time.Duration(p) * time.Second
	d := uint64(now - genesis)
	q := d / p

	r := CurrentRound(now, period, genesis)
	zz.Assert("current_is_floor_div_plus_one", r == q+1)
	// multiplicative form (no wrap possible once r-1 == q <= d <= 2^50 and p < 2^32)
	tr := genesis + int64((r-1)*p)
	zz.Assert("time_of_current_not_after_now", tr <= now)
	zz.Assert("time_of_next_after_now", tr+int64(p) > now)

	nr, nt := NextRound(now, period, genesis)
	zz.Assert("next_is_current_plus_one", nr == r+1)
	zz.Assert("next_time_is_schedule", nt == genesis+int64(r*p))
	zz.Assert("next_time_matches_TimeOfRound", nt == TimeOfRound(period, genesis, nr))
	zz.Assert("current_time_matches_TimeOfRound", tr == TimeOfRound(period, genesis, r))
}

// ZZ_C16_timeOfRound: every 64-bit round: exact schedule without wrap, or the documented error value.
func ZZ_C16_timeOfRound() {
	p := zzPeriod()
	genesis := zzGenesis()
	round := zz.U64("round")
	period := time.Duration(p) * time.Second
	const errv = int64(TimeOfRoundErrorValue)
	limit := int64(math.MaxInt64) - (1 << 36)

	t := TimeOfRound(period, genesis, round)
	if round == 0 {
		zz.Assert("round0_is_genesis", t == genesis)
		return
	}
	// largest k such that genesis + k*p <= limit
	lim := uint64(limit-genesis) / p
	if t != errv {
		zz.Assert("nonerror_fits_without_wrap", round-1 <= lim)
		zz.Assert("nonerror_is_exact_schedule", t == genesis+int64((round-1)*p))
		zz.Assert("nonerror_in_range", t >= 0 && t <= limit)
	}
	if round < math.MaxUint64 {
		t2 := TimeOfRound(period, genesis, round+1)
		if t != errv && t2 != errv {
			zz.Assert("strictly_increasing", t2 > t)
		}
		if t == errv {
			zz.Assert("error_is_upward_closed", t2 == errv)
		}
	}
}
