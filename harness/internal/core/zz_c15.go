package core

import (
	"context"
	"os"
	"path"
	"time"

	"google.golang.org/grpc"
	"google.golang.org/protobuf/types/known/timestamppb"

	"github.com/drand/drand/v2/common"
	"github.com/drand/drand/v2/common/key"
	"github.com/drand/drand/v2/crypto"
	"github.com/drand/drand/v2/internal/dkg"
	"github.com/drand/drand/v2/internal/net"
	"github.com/drand/drand/v2/internal/util"
	"github.com/drand/drand/v2/internal/zzfake"
	zz "github.com/drand/drand/v2/internal/zzverif"
	pdkg "github.com/drand/drand/v2/protobuf/dkg"
	"github.com/drand/drand/v2/protobuf/drand"
	"github.com/drand/kyber/share"
	kdkg "github.com/drand/kyber/share/dkg"
)

func init() {
	zz.Register("ZZ_C15_endpoints", ZZ_C15_endpoints)
	zz.Register("ZZ_C15_files", ZZ_C15_files)
}

// zzSecretNode: a node whose long-term key and key share are SECRET symbolic scalars.
func zzSecretNode(sch *crypto.Scheme) (*key.Pair, *key.Share, *key.Group) {
	sk := sch.KeyGroup.Scalar().SetBytes(zz.SecretBytes("longterm", sch.KeyGroup.ScalarLen()))
	pair := &key.Pair{Key: sk, Public: &key.Identity{Key: sch.KeyGroup.Point().Mul(sk, nil), Addr: "node0.example:4000", Scheme: sch}}
	if err := pair.SelfSign(); err != nil {
		panic(err)
	}
	other := zzfake.KeyPair(sch, "node1.example:4001", "c15-other")
	ep := zzfake.Deal(sch, 2, 2, "c15-secret", "c15-poly")
	sv := sch.KeyGroup.Scalar().SetBytes(zz.SecretBytes("share", sch.KeyGroup.ScalarLen()))
	sh := &key.Share{DistKeyShare: kdkg.DistKeyShare{Commits: ep.Commits, Share: &share.PriShare{I: 0, V: sv}}, Scheme: sch}
	g := zzfake.Group(sch, []*key.Pair{pair, other}, 2, 30*time.Second, 1700000000, ep, "")
	g.GenesisSeed = []byte("seed")
	return pair, sh, g
}

type zzIdent struct{ pair *key.Pair }

func (i *zzIdent) KeypairFor(string) (*key.Pair, error) { return i.pair, nil }

// ZZ_C15_endpoints: responses of the identity / key / group / chain-info / status endpoints and the DKG
// status and gossip produced by the node never depend on the long-term private key or the key share,
// and nothing that reaches the logger does.
func ZZ_C15_endpoints() {
	sch := zzfake.Scheme(crypto.DefaultSchemeID)
	pair, sh, g := zzSecretNode(sch)
	ks := &zzKeyStore{pair: pair, group: g, share: sh}
	bp := &BeaconProcess{opts: &Config{clock: zzfake.NewClock(1700001000)}, priv: pair, beaconID: "default", group: g, share: sh, store: ks,
		log: zzfake.Logger(), version: common.GetAppVersion()}
	bp.chainHash = []byte("h")
	ctx := context.Background()
	switch zz.Choose("endpoint", 7) {
	case 0:
		r, err := bp.GetIdentity(ctx, &drand.IdentityRequest{})
		zz.Observe("identity_response", r)
		zz.Observe("identity_error", err)
	case 1:
		r, err := bp.PublicKey(ctx, &drand.PublicKeyRequest{})
		zz.Observe("public_key_response", r)
		zz.Observe("public_key_error", err)
	case 2:
		r, err := bp.GroupFile(ctx, &drand.GroupRequest{})
		zz.Observe("group_file_response", r)
		zz.Observe("group_file_error", err)
	case 3:
		r, err := bp.ChainInfo(ctx, &drand.ChainInfoRequest{})
		zz.Observe("chain_info_response", r)
		zz.Observe("chain_info_error", err)
	case 4:
		r, err := bp.Status(ctx, &drand.StatusRequest{})
		zz.Observe("status_response", r)
		zz.Observe("status_error", err)
	case 5:
		// DKG status with a finished epoch that holds the share
		st := &zzDKGStore{finished: &dkg.DBState{BeaconID: "default", Epoch: 1, State: dkg.Complete, Threshold: 2, SchemeID: sch.Name,
			Timeout: time.Unix(1700000000, 0), GenesisTime: time.Unix(1700000000, 0), GenesisSeed: []byte("seed"), FinalGroup: g, KeyShare: sh}}
		proc := dkg.NewDKGProcess(st, &zzIdent{pair}, util.NewFanOutChan[dkg.SharingOutput](), nil, nil, dkg.Config{}, zzfake.Logger())
		r, err := proc.DKGStatus(ctx, &pdkg.DKGStatusRequest{BeaconID: "default"})
		zz.Observe("dkg_status_response", r)
		zz.Observe("dkg_status_error", err)
	case 6:
		// the identity as a DKG participant (what goes into proposals)
		part, err := util.PublicKeyAsParticipant(pair.Public)
		zz.Observe("participant", part)
		zz.Observe("participant_error", err)
	}
	zz.Assert("nothing_secret_reaches_the_logger", zz.LogsAreClean())
}

type zzDKGStore struct{ current, finished *dkg.DBState }

func (s *zzDKGStore) GetCurrent(id string) (*dkg.DBState, error) {
	if s.current != nil {
		return s.current, nil
	}
	if s.finished != nil {
		return s.finished, nil
	}
	return dkg.NewFreshState(id), nil
}
func (s *zzDKGStore) GetFinished(string) (*dkg.DBState, error)    { return s.finished, nil }
func (s *zzDKGStore) SaveCurrent(_ string, st *dkg.DBState) error { s.current = st; return nil }
func (s *zzDKGStore) SaveFinished(_ string, st *dkg.DBState) error {
	s.current, s.finished = st, st
	return nil
}
func (s *zzDKGStore) Close() error                                              { return nil }
func (s *zzDKGStore) MigrateFromGroupfile(string, *key.Group, *key.Share) error { return nil }

// ZZ_C15_files: every file that receives the private key or the share (key file, share file, DKG database)
// is owner-only when the secret is written to it.
func ZZ_C15_files() {
	sch := zzfake.Scheme(crypto.DefaultSchemeID)
	pair, sh, g := zzSecretNode(sch)
	dir := zz.TempDir("c15")
	// the file may already exist with loose permissions (a key folder restored with a plain copy, a file left by
	// another tool): writing the secret must still end with an owner-only file
	preexisting := zz.Bool("file.already_exists_world_readable")
	pre := func(name string) string {
		f := path.Join(dir, name)
		if preexisting {
			if err := os.WriteFile(f, []byte("previous content"), 0o644); err != nil {
				panic(err)
			}
			zz.Tag("preexisting_loose_file")
		}
		return f
	}
	switch zz.Choose("writer", 3) {
	case 0:
		zz.Tag("file=key_pair")
		zz.Assert("save_key_pair_ok", key.Save(pre("drand_id.private"), pair, true) == nil)
	case 1:
		zz.Tag("file=share")
		zz.Assert("save_share_ok", key.Save(pre("dist_key.private"), sh, true) == nil)
	case 2:
		zz.Tag("file=dkg.db")
		st, err := dkg.NewDKGStore(dir)
		zz.Assert("dkg_store_opens", err == nil)
		if err != nil {
			return
		}
		fin := &dkg.DBState{BeaconID: "default", Epoch: 1, State: dkg.Complete, Threshold: 2, SchemeID: sch.Name, Timeout: time.Unix(1700000000, 0),
			GenesisTime: time.Unix(1700000000, 0), GenesisSeed: []byte("seed"), BeaconPeriod: 30 * time.Second, FinalGroup: g, KeyShare: sh}
		zz.Assert("save_finished_ok", st.SaveFinished("default", fin) == nil)
		_ = st.Close()
	}
	zz.Assert("the_secret_was_written", zz.SecretFileCount() >= 1)
	zz.Assert("files_holding_secrets_are_owner_only", zz.SecretFilesAreOwnerOnly())
}

func init() { zz.Register("ZZ_C15_dkgGossip", ZZ_C15_dkgGossip) }

// zzDKGClient records what the DKG process sends to other nodes.
type zzDKGClient struct{ packets []*pdkg.GossipPacket }

func (c *zzDKGClient) Packet(_ context.Context, _ net.Peer, packet *pdkg.GossipPacket, _ ...grpc.CallOption) (*pdkg.EmptyDKGResponse, error) {
	c.packets = append(c.packets, packet)
	return &pdkg.EmptyDKGResponse{}, nil
}
func (c *zzDKGClient) BroadcastDKG(context.Context, net.Peer, *pdkg.DKGPacket, ...grpc.CallOption) (*pdkg.EmptyDKGResponse, error) {
	return &pdkg.EmptyDKGResponse{}, nil
}

// ZZ_C15_dkgGossip: what the key-generation service hands back to remote parties. A gossip packet (genuine, or
// passing every state check but badly signed, or malformed) reaches Process.Packet of a node whose long-term
// private key is a secret; an operator command makes the node sign and gossip. Neither the answer or ERROR
// returned to the remote sender, nor any packet the node gossips, nor anything given to the logger depends on
// the private key (signatures are the legitimate, declassified use).
func ZZ_C15_dkgGossip() {
	sch := zzfake.Scheme(crypto.DefaultSchemeID)
	pair, _, _ := zzSecretNode(sch)
	me, err := util.PublicKeyAsParticipant(pair.Public)
	if err != nil {
		panic(err)
	}
	leaderPair := zzfake.KeyPair(sch, "node1.example:4001", "c15-other")
	leader, _ := util.PublicKeyAsParticipant(leaderPair.Public)
	store, err := dkg.NewDKGStore(zz.TempDir("c15dkg"))
	if err != nil {
		panic(err)
	}
	cl := &zzDKGClient{}
	proc := dkg.NewDKGProcess(store, &zzIdent{pair}, util.NewFanOutChan[dkg.SharingOutput](), cl, nil,
		dkg.Config{Timeout: time.Hour, TimeBetweenDKGPhases: time.Second, KickoffGracePeriod: time.Hour}, zzfake.Logger())
	ctx := context.Background()
	terms := &pdkg.ProposalTerms{BeaconID: "default", Epoch: 1, Leader: leader, Threshold: 2, Timeout: timestamppb.New(time.Now().Add(time.Hour)),
		GenesisTime: timestamppb.New(time.Unix(1700000000, 0)), CatchupPeriodSeconds: 15, BeaconPeriodSeconds: 30, SchemeID: sch.Name,
		Joining: []*pdkg.Participant{leader, me}}
	pkt := &pdkg.GossipPacket{Packet: &pdkg.GossipPacket_Proposal{Proposal: terms}}
	switch zz.Choose("incoming", 3) {
	case 0: // genuine: signed by the leader over these terms
		pkt.Metadata = &pdkg.GossipMetadata{BeaconID: "default", Address: leader.Address, Signature: dkg.ZZSign(leaderPair, "default", pkt, terms)}
	case 1: // passes every state-machine check but the signature does not verify
		pkt.Metadata = &pdkg.GossipMetadata{BeaconID: "default", Address: leader.Address, Signature: zz.Bytes("bad.sig", 8)}
	case 2: // refused by the state machine (threshold too high)
		terms.Threshold = 9
		pkt.Metadata = &pdkg.GossipMetadata{BeaconID: "default", Address: leader.Address, Signature: zz.Bytes("bad.sig", 8)}
	}
	resp, perr := proc.Packet(ctx, pkt)
	zz.Quiesce()
	zz.Trace("packet error: %v | secret key: %s", perr, pair.Key)
	zz.Observe("packet_response", resp)
	zz.Observe("packet_error", perr)
	if perr == nil && zz.Bool("then_operator_joins") {
		_, cerr := proc.Command(ctx, &pdkg.DKGCommand{Metadata: &pdkg.CommandMetadata{BeaconID: "default"}, Command: &pdkg.DKGCommand_Join{Join: &pdkg.JoinOptions{}}})
		zz.Quiesce()
		zz.Observe("command_error", cerr)
	}
	for _, g := range cl.packets {
		zz.Observe("gossiped_packet", g)
	}
	st, serr := proc.DKGStatus(ctx, &pdkg.DKGStatusRequest{BeaconID: "default"})
	zz.Observe("dkg_status_response", st)
	zz.Observe("dkg_status_error", serr)
	zz.Assert("nothing_secret_reaches_the_logger", zz.LogsAreClean())
	proc.Close()
}

func init() { zz.Register("ZZ_C15_keyStore", ZZ_C15_keyStore) }

// ZZ_C15_keyStore: the node's key folder through the real key.Store a daemon uses (key.NewFileStore): the key
// pair is saved, the share and group of a first epoch, then (a resharing in which the node stays) the share and
// group of a second epoch over the existing files, optionally read back and reset. Whatever files the store
// leaves or creates on the way, those holding the private key or a share are owner-only, and what is read back
// is what was saved last.
func ZZ_C15_keyStore() {
	sch := zzfake.Scheme(crypto.DefaultSchemeID)
	pair, sh, g := zzSecretNode(sch)
	base := zz.TempDir("c15ks")
	st := key.NewFileStore(base, "default")
	zz.Assert("save_key_pair_ok", st.SaveKeyPair(pair) == nil)
	zz.Assert("save_share_ok", st.SaveShare(sh) == nil)
	zz.Assert("save_group_ok", st.SaveGroup(g) == nil)
	last := sh
	if zz.Bool("a_resharing_follows") {
		sv := sch.KeyGroup.Scalar().SetBytes(zz.SecretBytes("share2", sch.KeyGroup.ScalarLen()))
		sh2 := &key.Share{DistKeyShare: kdkg.DistKeyShare{Commits: sh.Commits, Share: &share.PriShare{I: 0, V: sv}}, Scheme: sch}
		if zz.Bool("the_share_file_cannot_be_written") {
			// something is in the way of the share file (here: a directory at its path): the save fails, the daemon
			// logs the error and goes on to save the group file
			shareFile := path.Join(path.Dir(key.GroupFilePath(st)), "dist_key.private")
			_ = os.Remove(shareFile)
			if err := os.Mkdir(shareFile, 0o700); err != nil {
				panic(err)
			}
			zz.Assert("failed_share_save_is_reported", st.SaveShare(sh2) != nil)
			zz.Assert("save_group_ok", st.SaveGroup(g) == nil)
			zz.Assert("files_holding_secrets_are_owner_only", zz.SecretFilesAreOwnerOnly())
			return
		}
		zz.Assert("save_share_ok", st.SaveShare(sh2) == nil)
		zz.Assert("save_group_ok", st.SaveGroup(g) == nil)
		last = sh2
		zz.Tag("second_share_over_the_first")
	}
	if zz.Bool("read_back") {
		p2, err := st.LoadKeyPair()
		zz.Assert("key_pair_reads_back", err == nil && p2 != nil && p2.Key.Equal(pair.Key))
		s2, err := st.LoadShare()
		zz.Assert("last_share_reads_back", err == nil && s2 != nil && s2.Share.V.Equal(last.Share.V))
	}
	zz.Assert("the_secrets_were_written", zz.SecretFileCount() >= 2)
	zz.Assert("files_holding_secrets_are_owner_only", zz.SecretFilesAreOwnerOnly())
	if zz.Bool("reset") {
		zz.Assert("reset_ok", st.Reset() == nil)
		zz.Assert("files_holding_secrets_are_owner_only", zz.SecretFilesAreOwnerOnly())
		_, err := st.LoadShare()
		zz.Assert("no_share_after_reset", err != nil)
	}
}
