package core

import (
	"bytes"
	"context"
	"crypto/sha256"
	"time"

	"google.golang.org/grpc"

	"github.com/drand/drand/v2/common"
	"github.com/drand/drand/v2/common/key"
	"github.com/drand/drand/v2/crypto"
	"github.com/drand/drand/v2/internal/chain"
	"github.com/drand/drand/v2/internal/chain/beacon"
	"github.com/drand/drand/v2/internal/chain/memdb"
	"github.com/drand/drand/v2/internal/zzfake"
	zz "github.com/drand/drand/v2/internal/zzverif"
	"github.com/drand/drand/v2/protobuf/drand"
)

func init() { zz.Register("ZZ_C01_publicExits", ZZ_C01_publicExits) }

// zzPublic1 adapts a BeaconProcess to the PublicServer the proxy (and through it the HTTP relay) talks to.
type zzPublic1 struct {
	drand.PublicServer
	bp *BeaconProcess
}

func (p *zzPublic1) PublicRand(ctx context.Context, in *drand.PublicRandRequest) (*drand.PublicRandResponse, error) {
	return p.bp.PublicRand(ctx, in)
}

// zzRacyStore: the database under the node's store stack; once armed, the next read of the head is followed
// (before the reader gets its answer) by whatever `after` does -- another goroutine storing a beacon in between.
type zzRacyStore struct {
	chain.Store
	armed bool
	after func()
}

func (s *zzRacyStore) Last(ctx context.Context) (*common.Beacon, error) {
	b, err := s.Store.Last(ctx)
	if s.armed {
		s.armed = false
		s.after()
	}
	return b, err
}

// ZZ_C01_publicExits: the gRPC randomness endpoint of a running node and the proxy the HTTP relay uses on top
// of it. The node's store is the in-memory back-end as a freshly bootstrapped node has it: genesis, a HOLE,
// then the newest rounds. For every requested round (0 = latest, stored, inside the hole, the next round that
// is being produced, beyond): a successful answer carries exactly the requested round, a signature that
// verifies under the group key for that round and previous signature, and randomness = SHA-256(signature);
// rounds the node does not hold are refused.
func ZZ_C01_publicExits() {
	schemes := []string{crypto.DefaultSchemeID, crypto.UnchainedSchemeID, crypto.SigsOnG1ID, crypto.ShortSigSchemeID, crypto.BN254UnchainedOnG1SchemeID}
	sch := zzfake.Scheme(schemes[zz.Param("scheme", 0)])
	chained := sch.Name == crypto.DefaultSchemeID
	pairs := []*key.Pair{zzfake.KeyPair(sch, "node0.example:4000", "c01p-0"), zzfake.KeyPair(sch, "node1.example:4001", "c01p-1")}
	ep := zzfake.Deal(sch, 2, 2, "c01p-secret", "c01p-poly")
	g := zzfake.Group(sch, pairs, 2, 30*time.Second, 1700000000, ep, "")
	g.GenesisSeed = []byte("c01p-seed")
	clk := zzfake.NewClock(1700000000 + 7*30 + 1)
	store := &zzRacyStore{Store: memdb.NewStore(10)}
	// rounds 5,6,7 with genuine signatures (round 5's predecessor is not held: what a memdb bootstrap leaves)
	prev := []byte("sig-of-round-4")
	var held []*common.Beacon
	for r := uint64(5); r <= 7; r++ {
		b := &common.Beacon{Round: r, Signature: zzfake.SignBeacon(sch, ep, r, prev)}
		if chained {
			b.PreviousSig = prev
		}
		held = append(held, b)
		if err := store.Put(context.Background(), b); err != nil {
			panic(err)
		}
		prev = b.Signature
	}
	conf := &beacon.Config{Public: g.Nodes[0], Share: ep.Share(sch, 0), Group: g, Clock: clk}
	hd, err := beacon.NewHandler(context.Background(), &zzfake.Client{Clock: clk}, store, conf, zzfake.Logger(), common.GetAppVersion())
	if err != nil {
		panic(err)
	}
	bp := &BeaconProcess{opts: &Config{clock: clk}, priv: pairs[0], beaconID: "default", group: g, beacon: hd, chainHash: []byte{1, 2, 3}, log: zzfake.Logger(), version: common.GetAppVersion()}
	proxy := Proxy(&zzPublic1{bp: bp})

	if zz.Bool("exit.public_stream") {
		zzPublicStreamExit(sch, g, bp, hd, held, prev, chained)
		return
	}
	wanted := uint64(zz.Choose("requested_round", 10)) // 0 latest, 1..4 hole, 5..7 held, 8 next, 9 beyond
	ctx, cancel := context.WithCancel(context.Background())
	var res interface {
		GetRound() uint64
		GetSignature() []byte
		GetRandomness() []byte
	}
	var resp *drand.PublicRandResponse
	var gerr error
	done := false
	next := &common.Beacon{Round: 8, Signature: zzfake.SignBeacon(sch, ep, 8, prev)}
	if chained {
		next.PreviousSig = prev
	}
	// the round about to be produced may land between the request's read of the head and its registration for
	// the next beacon (a catch-up or sync burst): the request then waits for a round that is already stored
	racy := false
	if wanted == 8 {
		racy = zz.Bool("next_round_lands_between_the_head_read_and_the_wait")
	}
	if racy {
		store.after = func() {
			if err := hd.Store().Put(context.Background(), next); err != nil {
				panic(err)
			}
		}
		store.armed = true
	}
	go func() {
		r, err := proxy.Get(ctx, wanted)
		if err == nil {
			res = r
			resp, _ = r.(*drand.PublicRandResponse)
		}
		gerr = err
		done = true
	}()
	zz.Quiesce()
	produced := false
	if racy {
		// ... and the round after it follows while the request waits
		after := &common.Beacon{Round: 9, Signature: zzfake.SignBeacon(sch, ep, 9, next.Signature)}
		if chained {
			after.PreviousSig = next.Signature
		}
		if err := hd.Store().Put(context.Background(), after); err != nil {
			panic(err)
		}
		zz.Quiesce()
		if !done {
			cancel()
			zz.Quiesce()
		}
		zz.Assert("request_returns", done)
		// the request may fail (it missed its round), but an answer it gives is the round it was asked for
		if done && gerr == nil {
			zz.Assert("answer_is_the_requested_round", res != nil && res.GetRound() == 8)
			zz.Assert("answer_carries_the_stored_signature", res != nil && bytes.Equal(res.GetSignature(), next.Signature))
		}
		cancel()
		hd.Stop(context.Background())
		return
	}
	if wanted == 8 && zz.Bool("next_round_is_produced") {
		produced = true
		if err := hd.Store().Put(context.Background(), next); err != nil {
			panic(err)
		}
		if zz.Bool("and_the_round_after_it_right_away") {
			// a catch-up / sync burst: two beacons are stored back to back while the request waits
			after := &common.Beacon{Round: 9, Signature: zzfake.SignBeacon(sch, ep, 9, next.Signature)}
			if chained {
				after.PreviousSig = next.Signature
			}
			if err := hd.Store().Put(context.Background(), after); err != nil {
				panic(err)
			}
		}
		zz.Quiesce()
	}
	if !done {
		cancel() // the client gives up
		zz.Quiesce()
	}
	zz.Assert("request_returns", done)
	if !done {
		return
	}
	var want *common.Beacon
	switch {
	case wanted == 0:
		want = held[2]
	case wanted >= 5 && wanted <= 7:
		want = held[wanted-5]
	case wanted == 8 && produced:
		want = next
	}
	if want == nil {
		zz.Assert("round_not_held_is_refused", gerr != nil)
		cancel()
		hd.Stop(context.Background())
		return
	}
	zz.Assert("held_round_is_served", gerr == nil && res != nil && resp != nil)
	if gerr != nil || res == nil || resp == nil {
		return
	}
	zz.Assert("answer_is_the_requested_round", res.GetRound() == want.Round)
	zz.Assert("answer_carries_the_stored_signature", bytes.Equal(res.GetSignature(), want.Signature) && bytes.Equal(resp.GetPreviousSignature(), want.PreviousSig))
	vb := &common.Beacon{Round: res.GetRound(), Signature: res.GetSignature(), PreviousSig: resp.GetPreviousSignature()}
	zz.Assert("answer_verifies_under_the_group_key", sch.VerifyBeacon(vb, g.PublicKey.Key()) == nil)
	sum := sha256.Sum256(res.GetSignature())
	zz.Assert("randomness_is_sha256_of_the_signature", bytes.Equal(res.GetRandomness(), sum[:]))
	cancel()
	hd.Stop(context.Background())
}

// zzRandStream records what the public randomness stream sends.
type zzRandStream struct {
	grpc.ServerStream
	ctx  context.Context
	sent []*drand.PublicRandResponse
}

func (s *zzRandStream) Send(r *drand.PublicRandResponse) error {
	s.sent = append(s.sent, r)
	return nil
}
func (s *zzRandStream) Context() context.Context { return s.ctx }

// zzPublicStreamExit: the public randomness stream (PublicRandStream -> beacon.SyncChain -> proxyStream.Send).
// From a held round it replays the stored beacons and then follows live; every item is the stored beacon of
// its round, verifies, carries randomness = SHA-256(signature), and rounds are consecutive.
func zzPublicStreamExit(sch *crypto.Scheme, g *key.Group, bp *BeaconProcess, hd *beacon.Handler, held []*common.Beacon, prev []byte, chained bool) {
	ctx, cancel := context.WithCancel(context.Background())
	st := &zzRandStream{ctx: ctx}
	from := uint64(5 + zz.Choose("stream.from", 3)) // 5..7
	var ret error
	done := false
	go func() {
		ret = bp.PublicRandStream(&drand.PublicRandRequest{Round: from}, st)
		done = true
	}()
	zz.Quiesce()
	all := append([]*common.Beacon{}, held...)
	ep := zzfake.Deal(sch, 2, 2, "c01p-secret", "c01p-poly")
	for r := uint64(8); r <= 9; r++ {
		b := &common.Beacon{Round: r, Signature: zzfake.SignBeacon(sch, ep, r, prev)}
		if chained {
			b.PreviousSig = prev
		}
		if err := hd.Store().Put(context.Background(), b); err != nil {
			panic(err)
		}
		all = append(all, b)
		prev = b.Signature
		zz.Quiesce()
	}
	cancel()
	zz.Quiesce()
	zz.Assert("stream_ends_when_the_client_goes", done && ret != nil)
	zz.Assert("stream_delivers_stored_then_live_rounds", len(st.sent) == int(9-from+1))
	pub := g.PublicKey.Key()
	for i, it := range st.sent {
		want := all[int(from-5)+i]
		zz.Assert("stream_rounds_are_consecutive_from_the_requested_one", it.GetRound() == from+uint64(i))
		zz.Assert("stream_item_is_the_stored_beacon", bytes.Equal(it.GetSignature(), want.Signature) && bytes.Equal(it.GetPreviousSignature(), want.PreviousSig))
		vb := &common.Beacon{Round: it.GetRound(), Signature: it.GetSignature(), PreviousSig: it.GetPreviousSignature()}
		zz.Assert("stream_item_verifies_under_the_group_key", sch.VerifyBeacon(vb, pub) == nil)
		sum := sha256.Sum256(it.GetSignature())
		zz.Assert("stream_randomness_is_sha256_of_the_signature", bytes.Equal(it.GetRandomness(), sum[:]))
	}
	hd.Stop(context.Background())
}
