package core

import (
	"context"

	"github.com/drand/drand/v2/common"
	"github.com/drand/drand/v2/crypto"
	dhttp "github.com/drand/drand/v2/handler/http"
	"github.com/drand/drand/v2/internal/zzfake"
	zz "github.com/drand/drand/v2/internal/zzverif"
	"github.com/drand/drand/v2/protobuf/drand"
)

func init() { zz.Register("ZZ_C14_daemonEndpoints", ZZ_C14_daemonEndpoints) }

func zzContained(f func()) (panicked bool) {
	defer func() {
		if r := recover(); r != nil {
			panicked = true
		}
	}()
	f()
	return false
}

// ZZ_C14_daemonEndpoints: arbitrary request metadata on the daemon's public / peer-facing endpoints of a
// two-chain daemon. Whatever the answer, no daemon lock stays held and a valid request is served afterwards.
func ZZ_C14_daemonEndpoints() {
	sch := zzfake.Scheme(crypto.DefaultSchemeID)
	h, err := dhttp.New(context.Background(), "zz")
	if err != nil {
		panic(err)
	}
	dd := &DrandDaemon{beaconProcesses: map[string]*BeaconProcess{}, chainHashes: map[string]string{}, log: zzfake.Logger(), handler: h, version: common.GetAppVersion()}
	chains := []*zzChain{zzMakeChain(sch, "", true), zzMakeChain(sch, "beta", true)}
	if zz.Bool("with_pre_dkg_chain") {
		chains = append(chains, zzMakeChain(sch, "fresh", false))
	}
	for _, c := range chains {
		dd.beaconProcesses[c.id] = c.bp
		if c.bp.group != nil {
			dd.AddBeaconHandler(context.Background(), c.id, c.bp)
		}
	}
	var md *drand.Metadata
	if !zz.Bool("metadata.nil") {
		md = &drand.Metadata{}
		switch zz.Choose("id.kind", 4) {
		case 1:
			md.BeaconID = "beta"
		case 2:
			md.BeaconID = "fresh"
		case 3:
			md.BeaconID = zz.String("id.sym", 2)
		}
		switch zz.Choose("hash.kind", 4) {
		case 1:
			md.ChainHash = chains[1].hash
		case 2:
			md.ChainHash = zz.Bytes("hash.sym", zz.Len("hash.len", 1, 3))
		case 3:
			md.ChainHash = zz.Bytes("hash.sym32", 32)
		}
	}
	// the caller has a deadline: a request for the round about to be produced waits for it, and nothing produces
	// beacons here
	ctx, cancel := context.WithCancel(context.Background())
	defer cancel()
	zz.WhenStuck(cancel)
	zzContained(func() {
		switch zz.Choose("endpoint", 5) {
		case 0:
			_, _ = dd.ChainInfo(ctx, &drand.ChainInfoRequest{Metadata: md})
		case 1:
			_, _ = dd.GetIdentity(ctx, &drand.IdentityRequest{Metadata: md})
		case 2:
			_, _ = dd.PublicRand(ctx, &drand.PublicRandRequest{Round: zz.U64("round"), Metadata: md})
		case 3:
			_, _ = dd.PartialBeacon(ctx, &drand.PartialBeaconPacket{Round: zz.U64("round"), PartialSig: zz.Bytes("partial", zz.Len("partial.len", 0, 3)), Metadata: md})
		case 4:
			_, _ = dd.Status(ctx, &drand.StatusRequest{Metadata: md})
		}
	})
	zz.Quiesce()
	free := dd.state.TryLock()
	zz.Assert("no_daemon_lock_left_held", free)
	if free {
		dd.state.Unlock()
	}
	for _, c := range chains {
		f := c.bp.state.TryLock()
		zz.Assert("no_beacon_process_lock_left_held", f)
		if f {
			c.bp.state.Unlock()
		}
	}
	bp, perr := dd.getBeaconProcessFromRequest(&drand.Metadata{BeaconID: "beta"})
	zz.Assert("valid_request_still_served", perr == nil && bp == chains[1].bp)
}
