package core

import (
	"bytes"
	"context"
	"fmt"
	"time"

	"github.com/drand/drand/v2/common"
	chain2 "github.com/drand/drand/v2/common/chain"
	"github.com/drand/drand/v2/common/key"
	"github.com/drand/drand/v2/crypto"
	dhttp "github.com/drand/drand/v2/handler/http"
	"github.com/drand/drand/v2/internal/chain/beacon"
	"github.com/drand/drand/v2/internal/chain/memdb"
	"github.com/drand/drand/v2/internal/zzfake"
	zz "github.com/drand/drand/v2/internal/zzverif"
	"github.com/drand/drand/v2/protobuf/drand"
)

func init() { zz.Register("ZZ_C19_routing", ZZ_C19_routing) }

type zzChain struct {
	id   string
	bp   *BeaconProcess
	hash []byte
}

func zzMakeChain(sch *crypto.Scheme, id string, withGroup bool) *zzChain {
	return zzMakeChainGen(sch, id, withGroup, "")
}

// zzMakeChainGen: gen distinguishes successive chains brought up under the same beacon id (new keys, new hash).
func zzMakeChainGen(sch *crypto.Scheme, id string, withGroup bool, gen string) *zzChain {
	pair := zzfake.KeyPair(sch, "node0.example:4000", "c19-"+id+gen)
	bp := &BeaconProcess{beaconID: common.GetCanonicalBeaconID(id), priv: pair, log: zzfake.Logger(), version: common.GetAppVersion(),
		exitCh: make(chan bool, 1), closeDKGChannel: func() {}}
	c := &zzChain{id: common.GetCanonicalBeaconID(id), bp: bp}
	if withGroup {
		ep := zzfake.Deal(sch, 1, 1, "c19-secret-"+id+gen, "c19-poly-"+id+gen)
		g := zzfake.Group(sch, []*key.Pair{pair}, 1, 30*time.Second, 1700000000, ep, id)
		g.GenesisSeed = []byte("seed-" + id + gen)
		bp.group = g
		c.hash = chain2.NewChainInfo(g).Hash()
		bp.chainHash = c.hash
		// a running chain has a beacon handler (what Shutdown stops)
		clk := zzfake.NewClock(1700000000 + 1000)
		hd, err := beacon.NewHandler(context.Background(), &zzfake.Client{Clock: clk}, memdb.NewStore(10),
			&beacon.Config{Public: g.Nodes[0], Share: ep.Share(sch, 0), Group: g, Clock: clk}, zzfake.Logger(), common.GetAppVersion())
		if err != nil {
			panic(err)
		}
		bp.beacon = hd
	}
	return c
}

// ZZ_C19_routing: a daemon with a default chain, a named chain and (optionally) a pre-DKG chain, after a
// symbolic add/remove history; a request with arbitrary beacon id / chain hash metadata is served by the
// process it names, or refused.
func ZZ_C19_routing() {
	sch := zzfake.Scheme(crypto.DefaultSchemeID)
	h, err := dhttp.New(context.Background(), "zz")
	if err != nil {
		panic(err)
	}
	dd := &DrandDaemon{beaconProcesses: map[string]*BeaconProcess{}, chainHashes: map[string]string{}, log: zzfake.Logger(), handler: h, version: common.GetAppVersion()}
	chains := []*zzChain{zzMakeChain(sch, "", true), zzMakeChain(sch, "beta", true), zzMakeChain(sch, "fresh", false)}
	running := make([]bool, 3)
	var staleHashes [][]byte
	add := func(i int) {
		c := chains[i]
		dd.state.Lock()
		dd.beaconProcesses[c.id] = c.bp
		dd.state.Unlock()
		if c.bp.group != nil {
			dd.AddBeaconHandler(context.Background(), c.id, c.bp)
		}
		running[i] = true
	}
	remove := func(i int) {
		c := chains[i]
		// the operator's stop command: RemoveBeaconHandler, BeaconProcess.Stop, RemoveBeaconProcess
		_, err := dd.Shutdown(context.Background(), &drand.ShutdownRequest{Metadata: &drand.Metadata{BeaconID: c.id}})
		zz.Assert("operator_can_stop_a_running_chain", err == nil)
		zz.Quiesce()
		running[i] = false
	}
	add(0)
	add(1)
	if zz.Bool("with_fresh_chain") {
		add(2)
	}
	// history: up to k stop / reload operations
	k := zz.Param("history", 2)
	for j := 0; j < k; j++ {
		op := zz.Choose(fmt.Sprintf("hist%d", j), 5) // 0 nothing, 1 stop default, 2 stop beta, 3 reload default, 4 reload beta
		switch op {
		case 1:
			if running[0] {
				remove(0)
			}
		case 2:
			if running[1] {
				remove(1)
			}
		case 3:
			if !running[0] {
				chains[0] = zzMakeChainGen(sch, "", true, "") // the same chain is loaded again (a stopped process is not reused)
				add(0)
			}
		case 4:
			if !running[1] {
				if zz.Bool(fmt.Sprintf("hist%d.beta_is_a_new_chain", j)) {
					// another chain (new keys, new genesis seed, new hash) is brought up under the id of the stopped one:
					// the stopped chain's hash must not resolve any more
					staleHashes = append(staleHashes, chains[1].hash)
					chains[1] = zzMakeChainGen(sch, "beta", true, "-second")
				} else {
					chains[1] = zzMakeChainGen(sch, "beta", true, "")
				}
				add(1)
			}
		}
	}
	// the request
	var md *drand.Metadata
	idKind, hashKind := -1, -1
	if !zz.Bool("metadata.nil") {
		md = &drand.Metadata{}
		idKind = zz.Choose("id.kind", 6) // 0 absent, 1 "default", 2 "beta", 3 "fresh", 4 unknown symbolic (2 bytes), 5 symbolic 1 byte
		switch idKind {
		case 1:
			md.BeaconID = "default"
		case 2:
			md.BeaconID = "beta"
		case 3:
			md.BeaconID = "fresh"
		case 4:
			md.BeaconID = zz.String("id.sym2", 2)
		case 5:
			md.BeaconID = zz.String("id.sym1", 1)
		}
		hashKind = zz.Choose("hash.kind", 6) // 0 absent, 1 default chain's, 2 beta's, 3 unknown symbolic 32 bytes, 4 malformed short, 5 hash of a chain that was stopped and replaced under its id
		switch hashKind {
		case 1:
			md.ChainHash = chains[0].hash
		case 2:
			md.ChainHash = chains[1].hash
		case 3:
			md.ChainHash = zz.Bytes("hash.sym", 32)
			zz.Assume(!bytes.Equal(md.ChainHash, chains[0].hash) && !bytes.Equal(md.ChainHash, chains[1].hash))
		case 4:
			md.ChainHash = zz.Bytes("hash.short", 2)
		case 5:
			zz.Assume(len(staleHashes) > 0)
			md.ChainHash = staleHashes[0]
		}
	}
	wantID := ""
	if md != nil {
		wantID = md.BeaconID
	}
	bp, rerr := dd.getBeaconProcessFromRequest(md)
	if rerr != nil {
		zz.Reach("refused")
	}
	// oracle
	idx := func(p *BeaconProcess) int {
		for i, c := range chains {
			if c.bp == p {
				return i
			}
		}
		return -1
	}
	named := -1 // which chain the id names
	switch common.GetCanonicalBeaconID(wantID) {
	case "default":
		named = 0
	case "beta":
		named = 1
	case "fresh":
		named = 2
	}
	byHash := -1
	if hashKind == 1 {
		byHash = 0
	} else if hashKind == 2 {
		byHash = 1
	}
	if rerr == nil {
		got := idx(bp)
		zz.Assert("served_by_a_running_chain", got >= 0 && running[got])
		if byHash >= 0 && running[byHash] {
			zz.Assert("known_hash_selects_its_chain", got == byHash)
			zz.Assert("id_and_hash_agree_when_both_given", wantID == "" || named == byHash)
		} else if hashKind <= 0 {
			zz.Assert("id_alone_selects_named_chain_or_default", got == named)
		} else {
			// unknown / malformed / stopped hash: only a chain that has not run its DKG yet may answer, by id
			zz.Assert("unknown_hash_only_for_pre_dkg_chain_named_by_id", got == named && chains[got].bp.group == nil)
		}
	} else {
		if hashKind <= 0 && named >= 0 && running[named] {
			zz.Assert("running_chain_named_by_id_is_served", false)
		}
		if byHash >= 0 && running[byHash] && (wantID == "" || named == byHash) {
			zz.Assert("running_chain_named_by_hash_is_served", false)
		}
	}
	// the served process answers with its own chain info
	if rerr == nil && bp.group != nil {
		info, ierr := dd.ChainInfo(context.Background(), &drand.ChainInfoRequest{Metadata: md})
		zz.Assert("chain_info_is_of_the_named_chain", ierr == nil && bytes.Equal(info.Hash, chains[idx(bp)].hash))
	}
	// stopped chains stop resolving over HTTP as well, the others keep working
	for i := 0; i < 2; i++ {
		hx := fmt.Sprintf("%x", chains[i].hash)
		dd.state.RLock()
		_, inTable := dd.chainHashes[hx]
		dd.state.RUnlock()
		zz.Assert("hash_table_tracks_running_chains", inTable == running[i])
	}
	for _, sh := range staleHashes {
		dd.state.RLock()
		_, still := dd.chainHashes[fmt.Sprintf("%x", sh)]
		dd.state.RUnlock()
		zz.Assert("hash_of_a_stopped_chain_stops_resolving", !still)
	}
	dd.state.RLock()
	_, defEntry := dd.chainHashes[common.DefaultChainHash]
	dd.state.RUnlock()
	zz.Assert("default_entry_tracks_default_chain", defEntry == running[0])
}
