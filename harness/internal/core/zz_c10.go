package core

import (
	"context"
	"time"

	"google.golang.org/grpc"

	"github.com/drand/drand/v2/common"
	chain2 "github.com/drand/drand/v2/common/chain"
	"github.com/drand/drand/v2/common/key"
	"github.com/drand/drand/v2/crypto"
	"github.com/drand/drand/v2/internal/chain"
	"github.com/drand/drand/v2/internal/net"
	"github.com/drand/drand/v2/internal/zzfake"
	zz "github.com/drand/drand/v2/internal/zzverif"
	"github.com/drand/drand/v2/protobuf/drand"
)

func init() { zz.Register("ZZ_C10_followRetries", ZZ_C10_followRetries) }

type zzFollowStream struct {
	grpc.ServerStream
	ctx  context.Context
	sent []*drand.SyncProgress
}

func (s *zzFollowStream) Send(p *drand.SyncProgress) error { s.sent = append(s.sent, p); return nil }
func (s *zzFollowStream) Context() context.Context        { return s.ctx }

type zzPublic struct {
	info *chain2.Info
}

func (c *zzPublic) PublicRandStream(context.Context, net.Peer, *drand.PublicRandRequest, ...net.CallOption) (chan *drand.PublicRandResponse, error) {
	return nil, zzfake.ErrFake
}
func (c *zzPublic) PublicRand(context.Context, net.Peer, *drand.PublicRandRequest) (*drand.PublicRandResponse, error) {
	return nil, zzfake.ErrFake
}
func (c *zzPublic) ChainInfo(context.Context, net.Peer, *drand.ChainInfoRequest) (*drand.ChainInfoPacket, error) {
	return c.info.ToProto(nil), nil
}
func (c *zzPublic) ListBeaconIDs(context.Context, net.Peer) (*drand.ListBeaconIDsResponse, error) {
	return nil, zzfake.ErrFake
}

// ZZ_C10_followRetries: StartFollowChain against one peer whose first sync attempt fails in a symbolic way
// and whose later attempts are honest. The chain hash is pinned before anything is stored; after a failed
// attempt the follow must try again and reach the target.
func ZZ_C10_followRetries() {
	sch := zzfake.Scheme(crypto.DefaultSchemeID)
	member := zzfake.KeyPair(sch, "member.example:4000", "c10-member")
	ep := zzfake.Deal(sch, 1, 1, "c10-secret", "c10-poly")
	g := zzfake.Group(sch, []*key.Pair{member}, 1, time.Second, 1700000000, ep, "")
	g.GenesisSeed = []byte("c10-seed")
	g.ID = "default"
	info := chain2.NewChainInfo(g)
	m := zz.Param("rounds", 2)
	var honest []*drand.BeaconPacket
	prev := g.GenesisSeed
	for r := 1; r <= m; r++ {
		sig := zzfake.SignBeacon(sch, ep, uint64(r), prev)
		honest = append(honest, &drand.BeaconPacket{Round: uint64(r), Signature: sig, PreviousSignature: prev, Metadata: &drand.Metadata{BeaconID: "default"}})
		prev = sig
	}
	clk := zzfake.NewClock(1700000000 + 1000)
	first := zz.Choose("first_attempt", 3) // 0 honest at once, 1 peer unreachable, 2 stream closed before any beacon
	attempts := 0
	client := &zzfake.Client{Clock: clk}
	client.SyncFn = func(_ context.Context, _ net.Peer, in *drand.SyncRequest) (chan *drand.BeaconPacket, error) {
		attempts++
		if attempts == 1 && first == 1 {
			return nil, zzfake.ErrFake
		}
		ch := make(chan *drand.BeaconPacket, m+1)
		if attempts == 1 && first == 2 {
			close(ch)
			return ch, nil
		}
		for _, b := range honest {
			if b.Round >= in.GetFromRound() {
				ch <- b
			}
		}
		return ch, nil
	}
	follower := zzfake.KeyPair(sch, "follower.example:4001", "c10-follower")
	gw := &net.PrivateGateway{ProtocolClient: client, PublicClient: &zzPublic{info}}
	bp := &BeaconProcess{opts: &Config{clock: clk, dbStorageEngine: chain.MemDB, memDBSize: 100}, priv: follower, beaconID: "default",
		log: zzfake.Logger(), privGateway: gw, version: common.GetAppVersion()}
	ctx, cancel := context.WithCancel(context.Background())
	stream := &zzFollowStream{ctx: ctx}
	hash := info.Hash()
	wrongHash := zz.Bool("operator_pins_another_hash")
	if wrongHash {
		hash = append([]byte{hash[0] ^ 1}, hash[1:]...)
	}
	req := &drand.StartSyncRequest{Nodes: []string{"member.example:4000"}, UpTo: uint64(m), Metadata: &drand.Metadata{BeaconID: "default", ChainHash: hash}}
	var ret error
	done := false
	go func() {
		ret = bp.StartFollowChain(ctx, req, stream)
		done = true
	}()
	zz.WhenStuck(cancel)                 // the operator gives up once nothing moves any more ...
	zz.AfterWall(8*time.Second, cancel) // ... or after 8 periods of retrying (the chain's period is 1 s)
	zz.Quiesce()
	for i := 0; i < 4 && !done; i++ {
		zz.Quiesce()
	}
	if wrongHash {
		zz.Assert("pinned_hash_mismatch_is_refused", done && ret != nil)
		zz.Assert("nothing_stored_before_the_hash_is_checked", bp.dbStore == nil)
		cancel()
		return
	}
	if first != 0 {
		zz.Tag("first_sync_attempt_failed")
	}
	head := uint64(0)
	if bp.dbStore != nil {
		if last, err := bp.dbStore.Last(context.Background()); err == nil {
			head = last.Round
		}
	}
	zz.Assert("follow_reaches_target_with_an_honest_peer", head == uint64(m))
	zz.Assert("follow_returns_success", done && ret == nil)
	if first != 0 {
		zz.Assert("a_second_attempt_was_made", attempts >= 2)
	}
	cancel()
}
