package core

import (
	"context"
	"errors"
	"time"

	"github.com/drand/drand/v2/common"
	"github.com/drand/drand/v2/common/key"
	"github.com/drand/drand/v2/crypto"
	"github.com/drand/drand/v2/internal/dkg"
	"github.com/drand/drand/v2/internal/zzfake"
	zz "github.com/drand/drand/v2/internal/zzverif"
)

func init() {
	zz.Register("ZZ_C13_dkgOutputCrash", ZZ_C13_dkgOutputCrash)
	zz.Register("ZZ_C07_groupTransition", ZZ_C07_groupTransition)
}

// zzKeyStore is the persistent key folder: what is in it survives a crash. Every write is a crash point.
type zzKeyStore struct {
	pair  *key.Pair
	group *key.Group
	share *key.Share
	torn  bool // a file was being written when the process died
}

func (s *zzKeyStore) SaveKeyPair(p *key.Pair) error { s.pair = p; return nil }
func (s *zzKeyStore) LoadKeyPair() (*key.Pair, error) { return s.pair, nil }
func (s *zzKeyStore) SaveShare(sh *key.Share) error {
	zz.CrashPoint("before:SaveShare")
	s.share = sh
	return nil
}
func (s *zzKeyStore) LoadShare() (*key.Share, error) {
	if s.share == nil {
		return nil, errors.New("no share")
	}
	return s.share, nil
}
func (s *zzKeyStore) SaveGroup(g *key.Group) error {
	zz.CrashPoint("before:SaveGroup")
	s.group = g
	return nil
}
func (s *zzKeyStore) LoadGroup() (*key.Group, error) {
	if s.group == nil {
		return nil, errors.New("no group")
	}
	return s.group, nil
}
func (s *zzKeyStore) Reset() error     { s.group, s.share = nil, nil; return nil }
func (s *zzKeyStore) TestWrite() error { return nil }

// ZZ_C13_dkgOutputCrash: a resharing completes (the DKG database records epoch 2 as finished, then the beacon
// process stores group file and share); the process dies at any persistence point. After restart the
// loaded group and share must belong to one epoch: the epoch the database records as completed (or the
// previous one only if the crash came before the completion was recorded).
func ZZ_C13_dkgOutputCrash() {
	sch := zzfake.Scheme(crypto.DefaultSchemeID)
	pairs := []*key.Pair{zzfake.KeyPair(sch, "node0.example:4000", "c13-0"), zzfake.KeyPair(sch, "node1.example:4001", "c13-1")}
	ep1 := zzfake.Deal(sch, 2, 2, "c13-secret", "c13-epoch1")
	ep2 := zzfake.Deal(sch, 2, 2, "c13-secret", "c13-epoch2")
	clk := zzfake.NewClock(1700000000 + 1000)
	g1 := zzfake.Group(sch, pairs, 2, 30*time.Second, 1700000000, ep1, "")
	g1.GenesisSeed = []byte("seed")
	g2 := zzfake.Group(sch, pairs, 2, 30*time.Second, 1700000000, ep2, "")
	g2.GenesisSeed = []byte("seed")
	g2.TransitionTime = common.TimeOfRound(g1.Period, g1.GenesisTime, 100)
	s1, s2 := ep1.Share(sch, 0), ep2.Share(sch, 0)

	ks := &zzKeyStore{pair: pairs[0], group: g1, share: s1}
	dbFinishedEpoch := 1 // what the DKG database records as completed
	opts := &Config{clock: clk, dkgCallback: func(context.Context, *key.Group) {}}
	bp := &BeaconProcess{opts: opts, priv: pairs[0], beaconID: "default", group: g1, share: s1, store: ks, log: zzfake.Logger(), version: common.GetAppVersion()}

	out := &dkg.SharingOutput{BeaconID: "default", Old: &dkg.DBState{BeaconID: "default", Epoch: 1, State: dkg.Complete, FinalGroup: g1, KeyShare: s1},
		New: dkg.DBState{BeaconID: "default", Epoch: 2, State: dkg.Complete, FinalGroup: g2, KeyShare: s2}}

	k := zz.Choose("crash_at", 4) // 0: no crash; 1..3: the 1st..3rd persistence point
	zz.CrashAt(k)
	crashed := zz.RunUntilCrash(func() {
		// what executeAndFinishDKG does: one database transaction records the completed epoch ...
		zz.CrashPoint("before:SaveFinished")
		dbFinishedEpoch = 2
		// ... then the completion is handed to the beacon process, which writes group and share files
		_ = bp.onDKGCompleted(context.Background(), out)
	})
	where := zz.CrashedAt()
	if crashed {
		switch where {
		case "before:SaveGroup":
			zz.Tag("window=after:SaveFinished,before:SaveGroup")
		case "before:SaveShare":
			zz.Tag("window=after:SaveGroup,before:SaveShare")
		default:
			zz.Tag("window=" + where)
		}
	}
	// restart: fresh objects over the surviving key folder
	bp2 := &BeaconProcess{opts: opts, priv: pairs[0], beaconID: "default", store: ks, log: zzfake.Logger(), version: common.GetAppVersion()}
	err := bp2.Load(context.Background())
	zz.Assert("restart_loads_without_repair", err == nil)
	if err != nil {
		return
	}
	groupEpoch, shareEpoch := 1, 1
	if bp2.group == g2 {
		groupEpoch = 2
	}
	if bp2.share == s2 {
		shareEpoch = 2
	}
	zz.Assert("group_and_share_of_one_epoch", groupEpoch == shareEpoch)
	// the previous epoch is acceptable only if the crash came before the completion was recorded
	zz.Assert("files_match_database_epoch", groupEpoch == dbFinishedEpoch)
	if !crashed {
		zz.Assert("no_crash_installs_new_epoch", groupEpoch == 2 && shareEpoch == 2 && dbFinishedEpoch == 2)
	}
}

// ZZ_C07_groupTransition: validateGroupTransition accepts a new group only if it keeps genesis time,
// genesis seed, period and beacon id and transitions in the future.
func ZZ_C07_groupTransition() {
	sch := zzfake.Scheme(crypto.DefaultSchemeID)
	pairs := []*key.Pair{zzfake.KeyPair(sch, "node0.example:4000", "c07-0")}
	ep := zzfake.Deal(sch, 1, 1, "c07-secret", "c07-epoch1")
	now := int64(1700000000 + 5000)
	clk := zzfake.NewClock(now)
	mk := func(pfx string) *key.Group {
		g := zzfake.Group(sch, pairs, 1, time.Duration(zz.U32(pfx+".period_s"))*time.Second, zz.I64(pfx+".genesis"), ep, zz.String(pfx+".id", zz.Param("idlen", 2)))
		g.GenesisSeed = zz.Bytes(pfx+".seed", 2)
		g.TransitionTime = zz.I64(pfx + ".transition")
		return g
	}
	a, b := mk("old"), mk("new")
	bp := &BeaconProcess{opts: &Config{clock: clk}, log: zzfake.Logger()}
	err := bp.validateGroupTransition(a, b)
	if err == nil {
		zz.Assert("accepted_keeps_genesis_time", a.GenesisTime == b.GenesisTime)
		zz.Assert("accepted_keeps_period", a.Period == b.Period)
		zz.Assert("accepted_keeps_beacon_id", common.CompareBeaconIDs(a.ID, b.ID))
		zz.Assert("accepted_keeps_genesis_seed", string(a.GenesisSeed) == string(b.GenesisSeed))
		zz.Assert("accepted_transitions_not_in_the_past", b.TransitionTime >= now)
	} else {
		same := a.GenesisTime == b.GenesisTime && a.Period == b.Period && common.CompareBeaconIDs(a.ID, b.ID) && string(a.GenesisSeed) == string(b.GenesisSeed) && b.TransitionTime >= now
		zz.Assert("valid_transition_is_accepted", !same)
	}
}
