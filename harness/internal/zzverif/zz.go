// Package zzverif is the nondeterminism / assertion API used by the verification
// harnesses under /verif/harness. It is injected into the drand module as an
// overlay (never committed to /repo).
//
// Under the symbolic engine (/verif/symgo) every function below is intercepted:
// U64 & co. return fresh SMT variables, Assume/Assert talk to the solver.
// Compiled natively (this file) the same functions read the concrete values of a
// counterexample from the JSON file named by $ZZVERIF_REPLAY, so that a harness
// is an ordinary Go function that runs in both worlds.
package zzverif

import (
	"bytes"
	"context"
	"crypto/sha256"
	"encoding/base64"
	"encoding/hex"
	"encoding/json"
	"fmt"
	"os"
	"path/filepath"
	"runtime"
	"strconv"
	"sync"
	"testing"
	"time"

	"google.golang.org/grpc/peer"
)

type replayFile struct {
	Harness string            `json:"harness"`
	Assert  string            `json:"assert"`
	Inputs  map[string]string `json:"inputs"`
	Params  map[string]int64  `json:"params"`
	Tag     string            `json:"tag"`
}

var (
	mu       sync.Mutex
	replay   replayFile
	seen     = map[string]int{}
	registry = map[string]func(){}
	lastTag  string
)

// Violation is the panic value raised by a failing Assert in native mode.
type Violation struct{ ID string }

type assumeFailed struct{}

func Register(name string, f func()) { registry[name] = f }

func load() {
	f := os.Getenv("ZZVERIF_REPLAY")
	if f == "" {
		return
	}
	b, err := os.ReadFile(f)
	if err != nil {
		panic(err)
	}
	if err := json.Unmarshal(b, &replay); err != nil {
		panic(err)
	}
}

func value(name string) uint64 {
	mu.Lock()
	defer mu.Unlock()
	n := seen[name]
	seen[name] = n + 1
	full := name
	if n > 0 {
		full = fmt.Sprintf("%s#%d", name, n+1)
	}
	s, ok := replay.Inputs[full]
	if !ok {
		return 0
	}
	v, _ := strconv.ParseUint(s, 16, 64)
	return v
}

func U8(name string) uint8            { return uint8(value(name)) }
func U16(name string) uint16          { return uint16(value(name)) }
func U32(name string) uint32          { return uint32(value(name)) }
func U64(name string) uint64          { return value(name) }
func I64(name string) int64           { return int64(value(name)) }
func Int(name string) int             { return int(int64(value(name))) }
func Bool(name string) bool           { return value(name) != 0 }
func Choose(name string, n int) int   { return int(value(name)) }
func Len(name string, lo, hi int) int { return int(value(name)) }

func Bytes(name string, n int) []byte {
	out := make([]byte, n)
	for i := range out {
		out[i] = byte(value(fmt.Sprintf("%s[%d]", name, i)))
	}
	return out
}

func String(name string, n int) string { return string(Bytes(name, n)) }

// Concretize is the identity natively.
func Concretize(v uint64) uint64 { return v }

func Assume(c bool) {
	if !c {
		panic(assumeFailed{})
	}
}

func Assert(id string, c bool) {
	if !c {
		panic(Violation{id})
	}
}

func Reach(id string) {}

func Tag(s string) { lastTag = s }

func Param(name string, def int) int {
	if v, ok := replay.Params[name]; ok {
		return int(v)
	}
	return def
}

// Symbolic reports whether the harness runs under the symbolic engine.
func Symbolic() bool { return false }

// Quiesce lets all other goroutines run until they block.
func Quiesce() {
	for i := 0; i < 50; i++ {
		runtime.Gosched()
		time.Sleep(2 * time.Millisecond)
	}
}

// WhenStuck runs f once no other goroutine can make progress (engine) / after a grace period (native).
// It models an environment watchdog such as "the manager cancels a sync that stopped progressing".
func WhenStuck(f func()) { time.AfterFunc(300*time.Millisecond, f) }

// WithRemote returns a context that carries the remote peer's address the way the gRPC server sets it
// (net.RemoteAddress(ctx) then returns addr). Under the engine the address is a context value read by the
// modelled net.RemoteAddress.
func WithRemote(ctx context.Context, addr string) context.Context {
	return peer.NewContext(ctx, &peer.Peer{Addr: remoteAddr(addr)})
}

type remoteAddr string

func (a remoteAddr) Network() string { return "tcp" }
func (a remoteAddr) String() string  { return string(a) }

// AfterWall runs f once d of (real / modelled) wall-clock time has passed: an operator or client deadline.
func AfterWall(d time.Duration, f func()) { time.AfterFunc(d, f) }

// ---- crash points ----
// CrashAt(k) arms the k-th persistence point (k = 0: never). CrashPoint(name) is called by harness-level
// store wrappers before each persistence operation (the engine's bbolt model has its own points too).
// RunUntilCrash runs f and reports whether it was cut short by the armed crash point.
type crashSig struct{ at string }

var crashArmed, crashCount int
var crashedAt string

func CrashAt(k int) { crashArmed, crashCount = k, 0 }
func CrashPoint(name string) {
	crashCount++
	if crashArmed > 0 && crashCount == crashArmed {
		crashedAt = name
		panic(crashSig{name})
	}
}
func RunUntilCrash(f func()) (crashed bool) {
	defer func() {
		if r := recover(); r != nil {
			if _, ok := r.(crashSig); ok {
				crashed = true
				crashArmed = 0
				return
			}
			panic(r)
		}
	}()
	f()
	crashArmed = 0
	return false
}
func CrashPointsSeen() int { return crashCount }
func CrashedAt() string    { return crashedAt }

// ---- secrecy (C15) ----
var secrets [][]byte
var tempDirs []string

// SecretBytes returns n secret bytes (symbolic "secret.*" inputs under the engine). Natively the value does
// not matter for a leak, so all-zero replay values are replaced by recognisable pseudo-random bytes.
func SecretBytes(name string, n int) []byte {
	out := make([]byte, n)
	zero := true
	for i := range out {
		out[i] = byte(value(fmt.Sprintf("secret.%s[%d]", name, i)))
		if out[i] != 0 {
			zero = false
		}
	}
	if zero {
		seed := sha256.Sum256([]byte("zzsecret:" + name))
		for i := range out {
			out[i] = seed[i%32] ^ byte(i/32)
		}
		out[0] &= 0x3f // stay below the group order when used as a big-endian scalar
		if n > 0 {
			out[n-1] |= 1
		}
	}
	if n >= 32 {
		// used as a scalar: stay below the group order in either byte order, so that the scalar's encoding IS
		// these bytes (a value above the order would be reduced and the scan below would look for the wrong bytes)
		out[0] &= 0x1f
		out[n-1] &= 0x1f
	}
	secrets = append(secrets, out)
	return out
}

func containsSecret(blob []byte) bool {
	for _, s := range secrets {
		if len(s) < 4 {
			continue
		}
		// both byte orders: scalar encodings are big-endian for some groups and little-endian for others
		r := make([]byte, len(s))
		for i := range s {
			r[i] = s[len(s)-1-i]
		}
		for _, v := range [][]byte{s, r} {
			if bytes.Contains(blob, v) || bytes.Contains(blob, []byte(hex.EncodeToString(v))) || bytes.Contains(blob, []byte(base64.StdEncoding.EncodeToString(v))) {
				return true
			}
		}
	}
	return false
}

// Observe: v leaves the node; it must not contain a secret (raw, hex or base64).
func Observe(tag string, v interface{}) {
	blob := []byte(fmt.Sprintf("%+v|%x", v, v))
	if j, err := json.Marshal(v); err == nil {
		blob = append(blob, j...)
	}
	Assert("no_secret_in_"+tag, !containsSecret(blob))
}

func LogsAreClean() bool { return true }

// LogTextIsClean: natively, the captured log text does not contain a secret; under the engine (where loggers
// record their arguments instead of writing text) it is LogsAreClean.
func LogTextIsClean(text string) bool { return !containsSecret([]byte(text)) }

// SecretFilesAreOwnerOnly scans the scratch directories: a file holding a secret must be owner-only.
func SecretFilesAreOwnerOnly() bool {
	ok := true
	for _, d := range tempDirs {
		filepath.Walk(d, func(p string, info os.FileInfo, err error) error {
			if err != nil || info.IsDir() {
				return nil
			}
			b, rerr := os.ReadFile(p)
			if rerr == nil && containsSecret(b) && info.Mode().Perm()&0o077 != 0 {
				ok = false
			}
			return nil
		})
	}
	return ok
}

func SecretFileCount() int {
	n := 0
	for _, d := range tempDirs {
		filepath.Walk(d, func(p string, info os.FileInfo, err error) error {
			if err != nil || info.IsDir() {
				return nil
			}
			if b, rerr := os.ReadFile(p); rerr == nil && containsSecret(b) {
				n++
			}
			return nil
		})
	}
	return n
}

func FileMode(path string) uint32 {
	st, err := os.Stat(path)
	if err != nil {
		return 0xffffffff
	}
	return uint32(st.Mode().Perm())
}

// TempDir returns a scratch directory (a real temporary directory natively, a path in the engine's
// file-system model otherwise).
func TempDir(prefix string) string {
	d, err := os.MkdirTemp("", "zz-"+prefix+"-")
	if err != nil {
		panic(err)
	}
	tempDirs = append(tempDirs, d)
	return d
}

// FileModes: (path, mode) of files opened through modelled APIs (engine only; empty natively).
func FileModes() ([]string, []uint32) { return nil, nil }

func Yield() { runtime.Gosched(); time.Sleep(time.Millisecond) }

func NumBlocked() int    { return 0 }
func HeldLocks() int     { return 0 }
func AllLocksFree() bool { return true }

func Trace(format string, args ...interface{}) {
	if os.Getenv("ZZVERIF_TRACE") != "" {
		fmt.Fprintf(os.Stderr, "zztrace: "+format+"\n", args...)
	}
}

// Hash is an injective uninterpreted function under the engine and SHA-256 natively.
func Hash(domain string, b []byte) []byte {
	h := sha256.Sum256(append([]byte("mac:"+domain+":"), b...))
	return h[:]
}

func BytesEq(a, b []byte) bool { return string(a) == string(b) }

func Implies(a, b bool) bool { return !a || b }

// And / Or build the formula without branching (no path fork under the engine).
func And(a, b bool) bool { return a && b }
func Or(a, b bool) bool  { return a || b }

// RunReplay is called by the generated TestZZReplay of each harness package.
func RunReplay(t *testing.T) {
	load()
	name := os.Getenv("ZZVERIF_FUNC")
	if name == "" {
		t.Skip("no replay requested")
		return
	}
	f, ok := registry[name]
	if !ok {
		fmt.Printf("ZZVERIF-RESULT error: harness %s not registered\n", name)
		return
	}
	done := make(chan string, 1)
	go func() {
		defer func() {
			if r := recover(); r != nil {
				switch x := r.(type) {
				case Violation:
					done <- "violated=" + x.ID
				case assumeFailed:
					done <- "assume-failed"
				default:
					buf := make([]byte, 4096)
					n := runtime.Stack(buf, false)
					done <- fmt.Sprintf("panic: %v\n%s", r, buf[:n])
				}
				return
			}
			done <- "ok"
		}()
		f()
	}()
	wd := 5 * time.Second
	if s := os.Getenv("ZZVERIF_WATCHDOG_MS"); s != "" {
		if ms, err := strconv.Atoi(s); err == nil {
			wd = time.Duration(ms) * time.Millisecond
		}
	}
	select {
	case r := <-done:
		fmt.Printf("ZZVERIF-TAG %s\n", lastTag)
		fmt.Printf("ZZVERIF-RESULT %s\n", r)
	case <-time.After(wd):
		buf := make([]byte, 1<<16)
		n := runtime.Stack(buf, true)
		fmt.Printf("ZZVERIF-STACKS\n%s\n", buf[:n])
		fmt.Printf("ZZVERIF-TAG %s\n", lastTag)
		fmt.Printf("ZZVERIF-RESULT blocked (harness still running after %v)\n", wd)
	}
}
