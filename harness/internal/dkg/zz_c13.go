package dkg

import (
	"context"
	"time"

	"github.com/drand/drand/v2/internal/util"
	"github.com/drand/drand/v2/internal/zzfake"
	zz "github.com/drand/drand/v2/internal/zzverif"
	"github.com/drand/kyber/share/dkg"
)

func init() { zz.Register("ZZ_C13_dkgRecordCrash", ZZ_C13_dkgRecordCrash) }

// ZZ_C13_dkgRecordCrash: a resharing completes (real executeAndFinishDKG over the real DKG store, ideal
// protocol outcome) and the process dies at any persistence point of the DKG database. After a restart
// (store reopened on the surviving file) the completed record is ONE WHOLE epoch -- Complete, with a group
// and the share that belongs to that group -- and the current record agrees with it: either the completion
// is recorded in both, or in neither. The completion is announced to the beacon process (which then overwrites
// the group file and the share in the key folder) only once the database records it, so the key folder is
// never ahead of the database.
func ZZ_C13_dkgRecordCrash() {
	w := zzNewWorld(3)
	now := time.Now()
	dir := zz.TempDir("c13dkg")
	bolt, err := NewDKGStore(dir)
	if err != nil {
		panic(err)
	}
	g1, ep1 := w.group(3, 2, 1700000000, []byte("seed"))
	fin := &DBState{BeaconID: zzBeacon, Epoch: 1, State: Complete, Threshold: 2, Timeout: now.Add(-time.Hour), SchemeID: w.sch.Name,
		GenesisTime: time.Unix(1700000000, 0), GenesisSeed: []byte("seed"), BeaconPeriod: 30 * time.Second, CatchupPeriod: 15 * time.Second,
		Leader: w.parts[1], Joining: w.parts[:3], Acceptors: w.parts[:3], FinalGroup: g1, KeyShare: ep1.Share(w.sch, 0)}
	if err := bolt.SaveFinished(zzBeacon, fin); err != nil {
		panic(err)
	}
	cur := &DBState{BeaconID: zzBeacon, Epoch: 2, State: Executing, Threshold: 2, Timeout: now.Add(time.Hour), SchemeID: w.sch.Name,
		GenesisTime: time.Unix(1700000000, 0), GenesisSeed: []byte("seed"), BeaconPeriod: 30 * time.Second, CatchupPeriod: 15 * time.Second,
		Leader: w.parts[1], Remaining: w.parts[:3]}
	if err := bolt.SaveCurrent(zzBeacon, cur); err != nil {
		panic(err)
	}
	// the beacon process listens here: once a completion is announced it overwrites the group file and the share
	fan := util.NewFanOutChan[SharingOutput]()
	listener := fan.Listen()
	p := NewDKGProcess(bolt, &zzIdent{w.pairs[0]}, fan, &zzClient{}, nil,
		Config{Timeout: time.Hour, TimeBetweenDKGPhases: 0, KickoffGracePeriod: time.Hour}, zzfake.Logger())
	ctx := context.Background()
	config, err := p.setupDKG(ctx, zzBeacon)
	if err != nil {
		panic(err)
	}
	ep2 := zzfake.Deal(w.sch, 3, 2, "dkg-secret", "c13-epoch2")
	failing := zz.Bool("protocol.fails")
	zzProtocolOutcome = func(c *dkg.Config) dkg.OptionResult {
		if failing {
			return dkg.OptionResult{Error: errZZStore}
		}
		my := 0
		for i, nd := range c.NewNodes {
			if nd.Public.Equal(w.pairs[0].Public.Key) {
				my = i
			}
		}
		return dkg.OptionResult{Result: &dkg.Result{QUAL: c.NewNodes, Key: &dkg.DistKeyShare{Commits: ep2.Commits, Share: ep2.Shares[my]}}}
	}
	k := zz.Choose("crash_at", 6) // 0: no crash; 1..5: the k-th persistence point of the database
	zz.CrashAt(k)
	returned := false
	crashed := zz.RunUntilCrash(func() {
		_ = p.executeAndFinishDKG(ctx, zzBeacon, config)
		returned = true
	})
	if crashed {
		zz.Tag("crash=" + zz.CrashedAt())
	}
	// was the completion announced to the beacon process before the process died? From that moment on the key
	// folder may hold the new epoch's group file and share.
	announced := len(fan.Chan()) > 0 || len(listener) > 0
	// restart: the database file is reopened by a new process
	_ = bolt.Close()
	re, err := NewDKGStore(dir)
	zz.Assert("database_reopens_after_the_crash", err == nil)
	if err != nil {
		return
	}
	f2, ferr := re.GetFinished(zzBeacon)
	c2, cerr := re.GetCurrent(zzBeacon)
	zz.Assert("records_are_readable_after_the_crash", ferr == nil && cerr == nil && f2 != nil && c2 != nil)
	if ferr != nil || cerr != nil || f2 == nil || c2 == nil {
		return
	}
	zz.Assert("completed_record_is_a_whole_epoch", f2.State == Complete && f2.FinalGroup != nil && f2.KeyShare != nil && f2.FinalGroup.PublicKey != nil &&
		f2.KeyShare.Public().Equal(f2.FinalGroup.PublicKey))
	zz.Assert("completion_is_announced_only_once_it_is_recorded", !announced || f2.Epoch == 2)
	zz.Assert("a_failed_protocol_announces_nothing", !failing || !announced)
	if returned && !failing {
		zz.Assert("a_completion_is_announced", announced)
	}
	switch f2.Epoch {
	case 1:
		zz.Assert("old_epoch_kept_with_its_own_group_and_share", zzSameRecord(zzCloneState(fin), f2))
		zz.Assert("current_record_agrees_with_the_completed_one", c2.Epoch == 2 && (c2.State == Executing || c2.State == Failed))
		zz.Assert("a_recorded_completion_is_never_lost", !returned || failing)
	case 2:
		zz.Assert("new_epoch_only_after_a_successful_protocol", !failing)
		zz.Assert("current_record_agrees_with_the_completed_one", zzSameRecord(f2, c2))
	default:
		zz.Assert("completed_epoch_is_the_old_or_the_new_one", false)
	}
	_ = re.Close()
}

func init() { zz.Register("ZZ_C13_migrationCrash", ZZ_C13_migrationCrash) }

// ZZ_C13_migrationCrash: the first start of a node whose key folder holds a group file and a share but whose
// key-generation database has no completed epoch (upgrade path): Process.Migrate records them as epoch 1. The
// process dies at any persistence point of the database. The restart does what the daemon does -- migrate again
// if the database still records no completed epoch -- and must come up without operator repair: the database
// then holds ONE WHOLE completed epoch 1 with that group and that share, and the current record agrees.
func ZZ_C13_migrationCrash() {
	w := zzNewWorld(3)
	dir := zz.TempDir("c13mig")
	g, ep := w.group(3, 2, 1700000000, []byte("seed"))
	sh := ep.Share(w.sch, 0)
	open := func() *BoltStore {
		s, err := NewDKGStore(dir)
		if err != nil {
			panic(err)
		}
		return s
	}
	process := func(s *BoltStore) *Process {
		return NewDKGProcess(s, &zzIdent{w.pairs[0]}, util.NewFanOutChan[SharingOutput](), &zzClient{}, nil,
			Config{Timeout: time.Hour, TimeBetweenDKGPhases: 0, KickoffGracePeriod: time.Hour}, zzfake.Logger())
	}
	// what LoadBeaconFromStore does on a start: no completed epoch in the database and a group file => migrate
	start := func(s *BoltStore) error {
		fin, err := s.GetFinished(zzBeacon)
		if err != nil {
			return err
		}
		if fin == nil {
			return process(s).Migrate(zzBeacon, g, sh)
		}
		return nil
	}
	s1 := open()
	k := zz.Choose("crash_at", 5) // 0: no crash; 1..4: the k-th persistence point of the database
	zz.CrashAt(k)
	var err1 error
	crashed := zz.RunUntilCrash(func() { err1 = start(s1) })
	if crashed {
		zz.Tag("crash=" + zz.CrashedAt())
	} else {
		zz.Assert("migration_succeeds", err1 == nil)
	}
	_ = s1.Close()
	// restart
	s2 := open()
	zz.Assert("restart_comes_up_without_operator_repair", start(s2) == nil)
	fin, ferr := s2.GetFinished(zzBeacon)
	cur, cerr := s2.GetCurrent(zzBeacon)
	zz.Assert("records_are_readable", ferr == nil && cerr == nil && fin != nil && cur != nil)
	if ferr != nil || cerr != nil || fin == nil || cur == nil {
		return
	}
	zz.Assert("completed_record_is_the_migrated_epoch", fin.State == Complete && fin.Epoch == 1 && fin.FinalGroup != nil && fin.KeyShare != nil &&
		fin.FinalGroup.Equal(g) && fin.KeyShare.Share.V.Equal(sh.Share.V) && fin.KeyShare.Share.I == sh.Share.I)
	zz.Assert("current_record_agrees_with_the_completed_one", zzSameRecord(fin, cur))
	_ = s2.Close()
}
