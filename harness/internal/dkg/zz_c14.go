package dkg

import (
	"context"
	"time"

	"github.com/drand/drand/v2/internal/util"
	"github.com/drand/drand/v2/internal/zzfake"
	zz "github.com/drand/drand/v2/internal/zzverif"
	drand "github.com/drand/drand/v2/protobuf/dkg"
	pcommon "github.com/drand/drand/v2/protobuf/drand"
	pdkg "github.com/drand/kyber/share/dkg"
)

func init() {
	zz.Register("ZZ_C14_dkgPacket", ZZ_C14_dkgPacket)
	zz.Register("ZZ_C14_dkgCommand", ZZ_C14_dkgCommand)
}

// zzContained runs a request the way the gRPC server does: under the panic-recovery interceptor
// (internal/net/listener.go installs grpcrecovery on the private listener): a panic becomes an error.
func zzContained(f func() error) (err error, panicked bool) {
	defer func() {
		if r := recover(); r != nil {
			panicked = true
		}
	}()
	return f(), false
}

// zzGossipPacket: an arbitrary protobuf-valid gossip packet: every nested pointer nil/non-nil, every oneof variant.
func zzGossipPacket(w *zzWorld) *drand.GossipPacket {
	if zz.Bool("packet.nil") {
		return nil
	}
	pkt := &drand.GossipPacket{}
	if !zz.Bool("metadata.nil") {
		pkt.Metadata = &drand.GossipMetadata{BeaconID: []string{zzBeacon, "", "other"}[zz.Choose("metadata.id", 3)], Address: w.parts[1].Address,
			Signature: zz.Bytes("metadata.sig", zz.Len("metadata.siglen", 0, 5))}
	}
	inner := zz.Bool("inner.nil")
	switch zz.Choose("variant", 7) {
	case 0: // oneof not set
	case 1:
		v := &drand.GossipPacket_Proposal{}
		if !inner {
			v.Proposal = &drand.ProposalTerms{BeaconID: zzBeacon}
			if zz.Bool("proposal.with_leader") {
				v.Proposal.Leader = w.parts[1]
			}
			if zz.Bool("proposal.with_nil_participant") {
				v.Proposal.Joining = []*drand.Participant{nil, w.parts[1]}
			}
		}
		pkt.Packet = v
	case 2:
		v := &drand.GossipPacket_Accept{}
		if !inner {
			v.Accept = &drand.AcceptProposal{}
		}
		pkt.Packet = v
	case 3:
		v := &drand.GossipPacket_Reject{}
		if !inner {
			v.Reject = &drand.RejectProposal{}
		}
		pkt.Packet = v
	case 4:
		v := &drand.GossipPacket_Abort{}
		if !inner {
			v.Abort = &drand.AbortDKG{}
		}
		pkt.Packet = v
	case 5:
		v := &drand.GossipPacket_Execute{}
		if !inner {
			v.Execute = &drand.StartExecution{}
		}
		pkt.Packet = v
	case 6:
		v := &drand.GossipPacket_Dkg{}
		if !inner {
			v.Dkg = &drand.DKGPacket{}
			if !zz.Bool("dkg.bundle_nil") {
				v.Dkg.Dkg = &drand.Packet{}
				if !zz.Bool("dkg.bundle_metadata_nil") {
					v.Dkg.Dkg.Metadata = &pcommon.Metadata{BeaconID: zzBeacon}
				}
			}
			zz.Tag("variant=Dkg")
		}
		pkt.Packet = v
	}
	return pkt
}

// ZZ_C14_dkgPacket: any gossip packet on Process.Packet, in a fresh or mid-DKG node.
// The call returns (no wedge), a panic is contained, no lock stays held and the node still serves.
func ZZ_C14_dkgPacket() {
	w := zzNewWorld(3)
	st := &zzStore{}
	if zz.Bool("state.mid_dkg") {
		st.current = &DBState{BeaconID: zzBeacon, Epoch: 1, State: Proposed, Threshold: 2, Timeout: time.Now().Add(time.Hour), SchemeID: w.sch.Name,
			GenesisTime: time.Unix(1700000000, 0), BeaconPeriod: 30 * time.Second, CatchupPeriod: 15 * time.Second, Leader: w.parts[1], Joining: w.parts}
	}
	p := zzProcess(w, 0, st, &zzClient{})
	pkt := zzGossipPacket(w)
	_, panicked := zzContained(func() error { _, err := p.Packet(context.Background(), pkt); return err })
	zz.Quiesce()
	_ = panicked // contained by the interceptor: allowed, but the node must be intact afterwards
	free := p.lock.TryLock()
	zz.Assert("no_lock_left_held", free)
	if free {
		p.lock.Unlock()
	}
	// probe: the node still answers a status request
	_, perr := p.DKGStatus(context.Background(), &drand.DKGStatusRequest{BeaconID: zzBeacon})
	zz.Assert("still_serving_after_request", perr == nil)
	_ = pdkg.MinimumT
}

// ZZ_C14_dkgCommand: arbitrary operator command packets (the control port is local, but the daemon must not wedge).
func ZZ_C14_dkgCommand() {
	w := zzNewWorld(3)
	p := zzProcess(w, 0, &zzStore{}, &zzClient{})
	var cmd *drand.DKGCommand
	if !zz.Bool("command.nil") {
		cmd = &drand.DKGCommand{}
		if !zz.Bool("metadata.nil") {
			cmd.Metadata = &drand.CommandMetadata{BeaconID: zzBeacon}
		}
		inner := zz.Bool("inner.nil")
		switch zz.Choose("variant", 8) {
		case 1:
			v := &drand.DKGCommand_Initial{}
			if !inner {
				v.Initial = &drand.FirstProposalOptions{}
			}
			cmd.Command = v
		case 2:
			v := &drand.DKGCommand_Resharing{}
			if !inner {
				v.Resharing = &drand.ProposalOptions{}
			}
			cmd.Command = v
		case 3:
			v := &drand.DKGCommand_Join{}
			if !inner {
				v.Join = &drand.JoinOptions{}
			}
			cmd.Command = v
		case 4:
			v := &drand.DKGCommand_Accept{}
			if !inner {
				v.Accept = &drand.AcceptOptions{}
			}
			cmd.Command = v
		case 5:
			v := &drand.DKGCommand_Reject{}
			if !inner {
				v.Reject = &drand.RejectOptions{}
			}
			cmd.Command = v
		case 6:
			v := &drand.DKGCommand_Execute{}
			if !inner {
				v.Execute = &drand.ExecutionOptions{}
			}
			cmd.Command = v
		case 7:
			v := &drand.DKGCommand_Abort{}
			if !inner {
				v.Abort = &drand.AbortOptions{}
			}
			cmd.Command = v
		}
	}
	zzContained(func() error { _, err := p.Command(context.Background(), cmd); return err })
	zz.Quiesce()
	free := p.lock.TryLock()
	zz.Assert("no_lock_left_held", free)
	if free {
		p.lock.Unlock()
	}
	_, perr := p.DKGStatus(context.Background(), &drand.DKGStatusRequest{BeaconID: zzBeacon})
	zz.Assert("still_serving_after_command", perr == nil)
}

func init() { zz.Register("ZZ_C14_dkgBundlesUnconsumed", ZZ_C14_dkgBundlesUnconsumed) }

// ZZ_C14_dkgBundlesUnconsumed: protocol bundles keep arriving at a node whose key-sharing protocol is not
// consuming them (it has ended, or has not started yet: the board stays registered between executions).
// A (former) participant can sign as many DIFFERENT bundles as it likes; each one is new to the echo board.
// Whatever their number, every request returns, no lock stays held and the DKG service still answers.
func ZZ_C14_dkgBundlesUnconsumed() {
	w := zzNewWorld(3)
	bolt, err := NewDKGStore(zz.TempDir("c14bundles"))
	if err != nil {
		panic(err)
	}
	cur := &DBState{BeaconID: zzBeacon, Epoch: 1, State: Executing, Threshold: 2, Timeout: time.Now().Add(time.Hour), SchemeID: w.sch.Name,
		GenesisTime: time.Unix(1700000000, 0), BeaconPeriod: 30 * time.Second, CatchupPeriod: 15 * time.Second, Leader: w.parts[1], Joining: w.parts[:3]}
	if err := bolt.SaveCurrent(zzBeacon, cur); err != nil {
		panic(err)
	}
	p := NewDKGProcess(bolt, &zzIdent{w.pairs[0]}, util.NewFanOutChan[SharingOutput](), &zzClient{}, nil,
		Config{Timeout: time.Hour, TimeBetweenDKGPhases: 0, KickoffGracePeriod: time.Hour}, zzfake.Logger())
	ctx := context.Background()
	conf, err := p.setupDKG(ctx, zzBeacon)
	if err != nil {
		panic(err)
	}
	var idx1 uint32
	for i, nd := range conf.NewNodes {
		if nd.Public.Equal(w.pairs[1].Public.Key) {
			idx1 = uint32(i)
		}
	}
	// the number of distinct genuine bundles member 1 sends: up to twice the board's per-kind capacity (= participants)
	k := 1 + zz.Choose("bundles", 2*len(conf.NewNodes))
	viaGossip := zz.Bool("via_gossip_packet")
	for i := 0; i < k; i++ {
		b := &pdkg.ResponseBundle{ShareIndex: idx1, Responses: []pdkg.Response{{DealerIndex: uint32(i), Status: true}}, SessionID: conf.Nonce}
		sig, err := conf.Auth.Sign(w.pairs[1].Key, b.Hash())
		if err != nil {
			panic(err)
		}
		b.Signature = sig
		pkt := &drand.DKGPacket{Dkg: respToProto(b, zzBeacon)}
		if i >= len(conf.NewNodes) {
			zz.Tag("protocol_channel_full")
		}
		if viaGossip {
			g := &drand.GossipPacket{Packet: &drand.GossipPacket_Dkg{Dkg: pkt}, Metadata: &drand.GossipMetadata{BeaconID: zzBeacon, Address: w.parts[1].Address, Signature: []byte{byte(i), 1, 2, 3, 4}}}
			_, _ = zzContained(func() error { _, err := p.Packet(ctx, g); return err })
		} else {
			_, _ = zzContained(func() error { _, err := p.BroadcastDKG(ctx, pkt); return err })
		}
		zz.Quiesce()
	}
	free := p.lock.TryLock()
	zz.Assert("no_lock_left_held", free)
	if free {
		p.lock.Unlock()
	}
	_, perr := p.DKGStatus(ctx, &drand.DKGStatusRequest{BeaconID: zzBeacon})
	zz.Assert("still_serving_after_the_bundles", perr == nil)
	board := p.Executions[zzBeacon].(*echoBroadcast)
	boardFree := board.TryLock()
	zz.Assert("board_lock_not_left_held", boardFree)
	if boardFree {
		board.Unlock()
	}
}

func init() { zz.Register("ZZ_C14_dkgShadowedAddress", ZZ_C14_dkgShadowedAddress) }

// ZZ_C14_dkgShadowedAddress: a first-epoch proposal, validly signed by its own leader, whose participant lists
// contain -- besides the receiving node's real identity -- entries that reuse the receiving node's ADDRESS with
// another (validly self-signed) key, entries listed twice, and nil entries, at symbolic positions. Any remote
// party can build such a packet. The request returns, nothing panics in the handler or in the gossip
// goroutines it leaves behind (those run outside the recovery interceptor), no lock stays held and the
// service still answers.
func ZZ_C14_dkgShadowedAddress() {
	w := zzNewWorld(4) // 0 = this node, 1 = the proposing leader, 2 = another joiner, 3 = the key put under node 0's address
	st := &zzStore{}
	cl := &zzClient{}
	p := zzProcess(w, 0, st, cl)
	shadow := zzCloneP(w.parts[3])
	shadow.Address = w.parts[0].Address
	var extra *drand.Participant
	switch zz.Choose("odd_entry", 4) {
	case 0:
		extra = shadow
	case 1:
		extra = zzCloneP(w.parts[0]) // this node listed twice
	case 2:
		extra = zzCloneP(w.parts[2]) // another joiner listed twice
	case 3:
		extra = nil // a nil entry
	}
	joining := []*drand.Participant{w.parts[1], w.parts[0], w.parts[2]}
	pos := zz.Choose("odd_entry_position", 4)
	joining = append(joining[:pos], append([]*drand.Participant{extra}, joining[pos:]...)...)
	terms := zzTerms(w, 1, 1, nil, joining, nil)
	terms.GenesisSeed = nil
	terms.Threshold = 3
	pkt := &drand.GossipPacket{Packet: &drand.GossipPacket_Proposal{Proposal: terms}}
	zzSign(w, 1, w.parts[1].Address, pkt, terms)
	rerr, _ := zzContained(func() error { _, err := p.Packet(context.Background(), pkt); return err })
	zz.Quiesce()
	zz.Trace("pos=%d err=%v ops=%v gossiped=%d", pos, rerr, st.ops, len(cl.packets))
	if len(st.ops) > 0 {
		zz.Reach("proposal_with_an_odd_entry_accepted_and_gossiped")
	}
	free := p.lock.TryLock()
	zz.Assert("no_lock_left_held", free)
	if free {
		p.lock.Unlock()
	}
	_, perr := p.DKGStatus(context.Background(), &drand.DKGStatusRequest{BeaconID: zzBeacon})
	zz.Assert("still_serving_after_request", perr == nil)
}
