package dkg

import (
	"context"
	"errors"
	"fmt"
	"time"

	"google.golang.org/grpc"
	"google.golang.org/protobuf/types/known/timestamppb"

	"github.com/drand/drand/v2/common/key"
	"github.com/drand/drand/v2/crypto"
	"github.com/drand/drand/v2/internal/net"
	"github.com/drand/drand/v2/internal/util"
	"github.com/drand/drand/v2/internal/zzfake"
	zz "github.com/drand/drand/v2/internal/zzverif"
	drand "github.com/drand/drand/v2/protobuf/dkg"
)

const zzBeacon = "default"

// zzWorld: a universe of identities with real self-signed keys.
type zzWorld struct {
	sch   *crypto.Scheme
	pairs []*key.Pair
	parts []*drand.Participant
}

func zzNewWorld(n int) *zzWorld { return zzNewWorldAddr(n, -1, "") }

// zzNewWorldAddr: like zzNewWorld, but identity `special` (if >= 0) is registered under the given address.
func zzNewWorldAddr(n, special int, addr string) *zzWorld {
	sch := zzfake.Scheme(crypto.DefaultSchemeID)
	w := &zzWorld{sch: sch}
	for i := 0; i < n; i++ {
		a := fmt.Sprintf("node%d.example:%d", i, 4000+i)
		if i == special {
			a = addr
		}
		p := zzfake.KeyPair(sch, a, fmt.Sprintf("dkg-kp%d", i))
		w.pairs = append(w.pairs, p)
		part, err := util.PublicKeyAsParticipant(p.Public)
		if err != nil {
			panic(err)
		}
		w.parts = append(w.parts, part)
	}
	return w
}

// group of the first m identities (epoch already completed)
func (w *zzWorld) group(m, thr int, genesis int64, seed []byte) (*key.Group, *zzfake.Epoch) {
	ep := zzfake.Deal(w.sch, m, thr, "dkg-secret", "dkg-epoch1")
	g := zzfake.Group(w.sch, w.pairs[:m], thr, 30*time.Second, genesis, ep, zzBeacon)
	g.GenesisSeed = seed
	return g, ep
}

// in-memory recording Store
type zzStore struct {
	current, finished *DBState
	ops               []string
	failSave          bool
	failGet           bool
}

var errZZStore = errors.New("zz: store failure")

func (s *zzStore) GetCurrent(id string) (*DBState, error) {
	if s.failGet {
		return nil, errZZStore
	}
	if s.current == nil {
		if s.finished != nil {
			return s.finished, nil
		}
		return NewFreshState(id), nil
	}
	return s.current, nil
}
func (s *zzStore) GetFinished(string) (*DBState, error) {
	if s.failGet {
		return nil, errZZStore
	}
	return s.finished, nil
}
func (s *zzStore) SaveCurrent(_ string, st *DBState) error {
	if s.failSave {
		return errZZStore
	}
	s.ops = append(s.ops, "current:"+st.State.String())
	s.current = st
	return nil
}
func (s *zzStore) SaveFinished(_ string, st *DBState) error {
	if s.failSave {
		return errZZStore
	}
	s.ops = append(s.ops, "finished:"+st.State.String())
	s.current, s.finished = st, st
	return nil
}
func (s *zzStore) Close() error                                          { return nil }
func (s *zzStore) MigrateFromGroupfile(string, *key.Group, *key.Share) error { return nil }

type zzIdent struct{ pair *key.Pair }

func (i *zzIdent) KeypairFor(string) (*key.Pair, error) { return i.pair, nil }

// recording DKG client
type zzClient struct {
	packets []*drand.GossipPacket
	to      []string
}

func (c *zzClient) Packet(_ context.Context, p net.Peer, packet *drand.GossipPacket, _ ...grpc.CallOption) (*drand.EmptyDKGResponse, error) {
	c.packets = append(c.packets, packet)
	c.to = append(c.to, p.Address())
	return &drand.EmptyDKGResponse{}, nil
}
func (c *zzClient) BroadcastDKG(context.Context, net.Peer, *drand.DKGPacket, ...grpc.CallOption) (*drand.EmptyDKGResponse, error) {
	return &drand.EmptyDKGResponse{}, nil
}

func zzProcess(w *zzWorld, me int, st *zzStore, cl *zzClient) *Process {
	return NewDKGProcess(st, &zzIdent{w.pairs[me]}, util.NewFanOutChan[SharingOutput](), cl, nil,
		Config{Timeout: time.Hour, TimeBetweenDKGPhases: time.Second, KickoffGracePeriod: time.Second}, zzfake.Logger())
}

func zzTS(t time.Time) *timestamppb.Timestamp { return timestamppb.New(t) }

// zzSign signs a gossip packet as participant `signer` (its real key) over the given terms.
func zzSign(w *zzWorld, signer int, claimAddr string, pkt *drand.GossipPacket, terms *drand.ProposalTerms) {
	kp := w.pairs[signer]
	sig, err := kp.Scheme().AuthScheme.Sign(kp.Key, messageForSigning(zzBeacon, pkt, terms))
	if err != nil {
		panic(err)
	}
	pkt.Metadata = &drand.GossipMetadata{BeaconID: zzBeacon, Address: claimAddr, Signature: sig}
}

var _ = zz.Bool

// ZZSign signs a gossip packet over the given terms with a key pair (exported for harnesses in other packages).
func ZZSign(kp *key.Pair, beaconID string, pkt *drand.GossipPacket, terms *drand.ProposalTerms) []byte {
	sig, err := kp.Scheme().AuthScheme.Sign(kp.Key, messageForSigning(beaconID, pkt, terms))
	if err != nil {
		panic(err)
	}
	return sig
}
