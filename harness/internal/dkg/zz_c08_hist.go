package dkg

import (
	"bytes"
	"context"
	"time"

	"github.com/drand/drand/v2/internal/util"
	"github.com/drand/drand/v2/internal/zzfake"
	zz "github.com/drand/drand/v2/internal/zzverif"
	drand "github.com/drand/drand/v2/protobuf/dkg"
)

func init() { zz.Register("ZZ_C08_histories", ZZ_C08_histories) }

// zzRecStore records the writes that reach the REAL BoltStore underneath (bbolt + TOML natively, the bbolt
// model + identity codec under the engine): every Get decodes a fresh copy, as in production.
type zzRecStore struct {
	Store
	ops []string
}

func (s *zzRecStore) SaveCurrent(id string, st *DBState) error {
	err := s.Store.SaveCurrent(id, st)
	if err == nil {
		s.ops = append(s.ops, "current:"+st.State.String())
	}
	return err
}
func (s *zzRecStore) SaveFinished(id string, st *DBState) error {
	err := s.Store.SaveFinished(id, st)
	if err == nil {
		s.ops = append(s.ops, "finished:"+st.State.String())
	}
	return err
}

func zzSameRecord(a, b *DBState) bool {
	if a == nil || b == nil {
		return a == b
	}
	if a.Epoch != b.Epoch || a.State != b.State || a.Threshold != b.Threshold || a.BeaconID != b.BeaconID || a.SchemeID != b.SchemeID ||
		a.Timeout.Unix() != b.Timeout.Unix() || a.GenesisTime.Unix() != b.GenesisTime.Unix() || !bytes.Equal(a.GenesisSeed, b.GenesisSeed) ||
		a.BeaconPeriod != b.BeaconPeriod || a.CatchupPeriod != b.CatchupPeriod {
		return false
	}
	if !zzSameParts(a.Remaining, b.Remaining) || !zzSameParts(a.Joining, b.Joining) || !zzSameParts(a.Leaving, b.Leaving) ||
		!zzSameParts(a.Acceptors, b.Acceptors) || !zzSameParts(a.Rejectors, b.Rejectors) {
		return false
	}
	if (a.Leader == nil) != (b.Leader == nil) || (a.Leader != nil && !util.EqualParticipant(a.Leader, b.Leader)) {
		return false
	}
	if (a.FinalGroup == nil) != (b.FinalGroup == nil) || (a.KeyShare == nil) != (b.KeyShare == nil) {
		return false
	}
	if a.FinalGroup != nil && !bytes.Equal(a.FinalGroup.Hash(), b.FinalGroup.Hash()) {
		return false
	}
	if a.KeyShare != nil && (a.KeyShare.Share.I != b.KeyShare.Share.I || !a.KeyShare.Share.V.Equal(b.KeyShare.Share.V) || !a.KeyShare.Public().Equal(b.KeyShare.Public())) {
		return false
	}
	return true
}

func zzSameParts(a, b []*drand.Participant) bool {
	if len(a) != len(b) {
		return false
	}
	for i := range a {
		if !util.EqualParticipant(a[i], b[i]) {
			return false
		}
	}
	return true
}

func zzCloneState(d *DBState) *DBState {
	if d == nil {
		return nil
	}
	c := *d
	cp := func(l []*drand.Participant) []*drand.Participant {
		if l == nil {
			return nil
		}
		return append([]*drand.Participant{}, l...)
	}
	c.Remaining, c.Joining, c.Leaving, c.Acceptors, c.Rejectors = cp(d.Remaining), cp(d.Joining), cp(d.Leaving), cp(d.Acceptors), cp(d.Rejectors)
	c.GenesisSeed = append([]byte(nil), d.GenesisSeed...)
	return &c
}

func zzIsTerminal(s Status) bool { return s == Aborted || s == TimedOut || s == Failed }

// ZZ_C08_histories: k operator commands / gossip packets (valid and invalid, from the leader, a member, a
// non-leader, a forger) through the real Process.Command / Process.Packet over the real DKG store, on a node
// that is a member of a completed epoch (or fresh). No key sharing completes in these histories, so:
// the completed record is never written or altered, the stored epoch never decreases, every stored step is
// a legal transition, a refused event changes nothing, and afterwards the last completed epoch is still
// usable: the pending attempt can be aborted (also after its deadline) and a valid proposal for the next
// epoch is accepted.
func ZZ_C08_histories() {
	w := zzNewWorld(4)
	now := time.Now()
	bolt, err := NewDKGStore(zz.TempDir("c08hist"))
	if err != nil {
		panic(err)
	}
	st := &zzRecStore{Store: bolt}
	hasEpoch := zz.Param("fresh", 0) == 0
	finEpoch := uint32(0)
	if hasEpoch {
		finEpoch = uint32(zz.Param("finished_epoch", 2))
		g, ep := w.group(3, 2, 1700000000, []byte("seed"))
		fin := &DBState{BeaconID: zzBeacon, Epoch: finEpoch, State: Complete, Threshold: 2, Timeout: now.Add(-time.Hour), SchemeID: w.sch.Name,
			GenesisTime: time.Unix(1700000000, 0), GenesisSeed: []byte("seed"), BeaconPeriod: 30 * time.Second, CatchupPeriod: 15 * time.Second,
			Leader: w.parts[1], Remaining: w.parts[:3], Acceptors: w.parts[:3], FinalGroup: g, KeyShare: ep.Share(w.sch, 0)}
		if finEpoch == 1 {
			fin.Remaining, fin.Joining = nil, w.parts[:3]
		}
		if err := bolt.SaveFinished(zzBeacon, fin); err != nil {
			panic(err)
		}
	}
	cl := &zzClient{}
	p := NewDKGProcess(st, &zzIdent{w.pairs[0]}, util.NewFanOutChan[SharingOutput](), cl, nil,
		Config{Timeout: time.Hour, TimeBetweenDKGPhases: time.Second, KickoffGracePeriod: time.Hour}, zzfake.Logger())
	ctx := context.Background()
	fin0, _ := st.GetFinished(zzBeacon)
	fin0 = zzCloneState(fin0)

	deadline := func(name string) time.Time {
		switch zz.Choose(name, 3) {
		case 1:
			return now.Add(-time.Minute) // already over
		case 2:
			return time.Now().Add(2 * time.Second) // short: expires when time passes (event 10)
		}
		return now.Add(time.Hour)
	}
	meta := &drand.CommandMetadata{BeaconID: zzBeacon}
	k := zz.Param("events", 2)
	wide := zz.Param("wide", 0) == 1
	for i := 0; i < k; i++ {
		before, _ := st.GetCurrent(zzBeacon)
		before = zzCloneState(before) // a snapshot: the store may hand out an object it keeps
		base := before
		if zzIsTerminal(before.State) {
			if base, _ = st.GetFinished(zzBeacon); base == nil {
				base = NewFreshState(zzBeacon)
			}
		}
		nops := len(st.ops)
		var err error
		isExecute := false
		ev := zz.Choose("event", 11)
		switch ev {
		case 0: // operator: propose (me = leader)
			thr, member2, joiner := uint32(2), 0, false
			var dl time.Time
			if wide {
				thr, member2, joiner, dl = uint32(1+zz.Choose("propose.threshold", 4)), zz.Choose("propose.member2", 3), zz.Bool("propose.with_joiner"), deadline("propose.timeout")
			} else {
				dl = now.Add(time.Hour)
				switch zz.Choose("propose.variant", 8) {
				case 1:
					member2 = 1 // member 2 leaves
				case 2:
					member2 = 2 // member 2 forgotten
				case 3:
					thr = 1 // below the minimum
				case 4:
					thr = 4 // above the node count
				case 5:
					dl = now.Add(-time.Minute)
				case 6:
					dl = time.Now().Add(2 * time.Second)
				case 7:
					joiner = true
				}
			}
			if hasEpoch {
				opts := &drand.ProposalOptions{Timeout: zzTS(dl), Threshold: thr, CatchupPeriodSeconds: 15}
				opts.Remaining = []*drand.Participant{w.parts[0], w.parts[1]}
				switch member2 {
				case 0:
					opts.Remaining = append(opts.Remaining, w.parts[2])
				case 1:
					opts.Leaving = []*drand.Participant{w.parts[2]}
				} // 2: forgotten
				if joiner {
					opts.Joining = []*drand.Participant{w.parts[3]}
				}
				_, err = p.Command(ctx, &drand.DKGCommand{Metadata: meta, Command: &drand.DKGCommand_Resharing{Resharing: opts}})
			} else {
				opts := &drand.FirstProposalOptions{Timeout: zzTS(dl), Threshold: thr, PeriodSeconds: 30,
					CatchupPeriodSeconds: 15, Scheme: w.sch.Name, GenesisTime: zzTS(time.Unix(1700000000, 0)), Joining: w.parts[:3]}
				_, err = p.Command(ctx, &drand.DKGCommand{Metadata: meta, Command: &drand.DKGCommand_Initial{Initial: opts}})
			}
		case 1:
			_, err = p.Command(ctx, &drand.DKGCommand{Metadata: meta, Command: &drand.DKGCommand_Accept{Accept: &drand.AcceptOptions{}}})
		case 2:
			_, err = p.Command(ctx, &drand.DKGCommand{Metadata: meta, Command: &drand.DKGCommand_Reject{Reject: &drand.RejectOptions{}}})
		case 3:
			_, err = p.Command(ctx, &drand.DKGCommand{Metadata: meta, Command: &drand.DKGCommand_Abort{Abort: &drand.AbortOptions{}}})
		case 4:
			isExecute = true
			_, err = p.Command(ctx, &drand.DKGCommand{Metadata: meta, Command: &drand.DKGCommand_Execute{Execute: &drand.ExecutionOptions{}}})
		case 5: // packet: proposal claimed from member 1
			delta, badSeed, signer := 1, false, 1
			var dl time.Time
			if wide {
				delta, badSeed, signer, dl = zz.Choose("proposal.epoch_delta", 3), zz.Bool("proposal.changes_seed"), []int{1, 3}[zz.Choose("proposal.signer", 2)], deadline("proposal.timeout")
			} else {
				dl = now.Add(time.Hour)
				switch zz.Choose("proposal.variant", 7) {
				case 1:
					delta = 0 // stale epoch
				case 2:
					delta = 2 // skips an epoch
				case 3:
					badSeed = true
				case 4:
					signer = 3 // forged
				case 5:
					dl = now.Add(-time.Minute)
				case 6:
					dl = time.Now().Add(2 * time.Second)
				}
			}
			epoch := finEpoch + uint32(delta)
			var terms *drand.ProposalTerms
			if !hasEpoch {
				terms = zzTerms(w, epoch, 1, nil, w.parts[:3], nil)
				terms.GenesisSeed = nil
				if badSeed {
					terms.GenesisSeed = []byte("other")
				}
			} else {
				terms = zzTerms(w, epoch, 1, w.parts[:3], nil, nil)
				if badSeed {
					terms.GenesisSeed = []byte("other")
				}
			}
			terms.Timeout = zzTS(dl)
			pkt := &drand.GossipPacket{Packet: &drand.GossipPacket_Proposal{Proposal: terms}}
			zzSign(w, signer, w.parts[1].Address, pkt, terms)
			_, err = p.Packet(ctx, pkt)
		case 6, 7, 8, 9: // packets about the attempt in progress, signed over the stored terms
			terms := termsFromState(before)
			var pkt *drand.GossipPacket
			claimed := 2
			switch ev {
			case 6:
				pkt = &drand.GossipPacket{Packet: &drand.GossipPacket_Accept{Accept: &drand.AcceptProposal{Acceptor: w.parts[2]}}}
			case 7:
				pkt = &drand.GossipPacket{Packet: &drand.GossipPacket_Reject{Reject: &drand.RejectProposal{Rejector: w.parts[2]}}}
			case 8:
				claimed = 1 + zz.Choose("abort.sender", 2) // the leader (1) or a non-leader (2)
				pkt = &drand.GossipPacket{Packet: &drand.GossipPacket_Abort{Abort: &drand.AbortDKG{Reason: "r"}}}
			case 9:
				isExecute = true
				claimed = 1 + zz.Choose("execute.sender", 2)
				pkt = &drand.GossipPacket{Packet: &drand.GossipPacket_Execute{Execute: &drand.StartExecution{Time: zzTS(time.Now().Add(time.Hour))}}}
			}
			signer := claimed
			if zz.Bool("packet.forged") {
				signer = 3
			}
			zzSign(w, signer, w.parts[claimed].Address, pkt, terms)
			_, err = p.Packet(ctx, pkt)
		case 10: // time passes: short deadlines expire
			time.Sleep(3 * time.Second)
		}
		zz.Quiesce()
		after, _ := st.GetCurrent(zzBeacon)
		finNow, _ := st.GetFinished(zzBeacon)
		zz.Assert("completed_record_untouched_without_a_completion", zzSameRecord(fin0, finNow))
		for _, op := range st.ops[nops:] {
			zz.Assert("no_finished_write_without_a_completion", len(op) < 8 || op[:8] != "finished")
		}
		zz.Assert("stored_epoch_never_decreases", after.Epoch >= before.Epoch)
		if err != nil {
			if !isExecute {
				zz.Assert("refused_event_changes_nothing", len(st.ops) == nops && zzSameRecord(before, after))
			} else {
				zz.Reach("refused_execute")
			}
		} else if len(st.ops) > nops {
			zz.Assert("stored_step_is_a_legal_transition", after.State == base.State || zzIsLegal(base.State, after.State))
			if after.State == Proposed || after.State == Proposing {
				zz.Assert("new_attempt_is_for_the_next_epoch", !hasEpoch || after.Epoch == finEpoch+1)
				zz.Assert("new_attempt_deadline_in_the_future", after.Timeout.After(now.Add(-time.Second)))
			}
		}
	}
	// probe: the last completed epoch is still usable for the next proposal
	cur, _ := st.GetCurrent(zzBeacon)
	switch cur.State {
	case Proposing, Proposed, Accepted, Rejected, Joined:
		if zz.Bool("probe.after_deadline") {
			time.Sleep(3 * time.Second)
			zz.Tag("pending_attempt_past_deadline=" + boolStr(!cur.Timeout.After(time.Now())))
		}
		_, err := p.Command(ctx, &drand.DKGCommand{Metadata: meta, Command: &drand.DKGCommand_Abort{Abort: &drand.AbortOptions{}}})
		zz.Assert("pending_attempt_can_be_aborted", err == nil)
		if err != nil {
			p.Close()
			return
		}
	case Executing, Left:
		p.Close()
		return
	}
	if hasEpoch {
		terms := zzTerms(w, finEpoch+1, 1, w.parts[:3], nil, nil)
		terms.Timeout = zzTS(time.Now().Add(time.Hour + time.Minute)) // differs from every earlier packet
		pkt := &drand.GossipPacket{Packet: &drand.GossipPacket_Proposal{Proposal: terms}}
		zzSign(w, 1, w.parts[1].Address, pkt, terms)
		_, err := p.Packet(ctx, pkt)
		zz.Quiesce()
		got, _ := st.GetCurrent(zzBeacon)
		zz.Assert("last_completed_epoch_usable_for_the_next_proposal", err == nil && got.State == Proposed && got.Epoch == finEpoch+1)
		finNow, _ := st.GetFinished(zzBeacon)
		zz.Assert("completed_record_untouched_without_a_completion", zzSameRecord(fin0, finNow))
	}
	p.Close()
}

func boolStr(b bool) string {
	if b {
		return "yes"
	}
	return "no"
}
