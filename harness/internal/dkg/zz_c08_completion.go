package dkg

import (
	"bytes"
	"context"
	"errors"
	"time"

	"github.com/drand/drand/v2/common"
	"github.com/drand/drand/v2/common/key"
	"github.com/drand/drand/v2/internal/util"
	"github.com/drand/drand/v2/internal/zzfake"
	zz "github.com/drand/drand/v2/internal/zzverif"
	drand "github.com/drand/drand/v2/protobuf/dkg"
	"github.com/drand/kyber/share/dkg"
)

func init() { zz.Register("ZZ_C08_completion", ZZ_C08_completion) }

// zzSlowIdent answers key lookups; once slowFromNow is set the next lookup takes 3 s (a slow node).
type zzSlowIdent struct {
	pair        *key.Pair
	slowFromNow bool
}

func (i *zzSlowIdent) KeypairFor(string) (*key.Pair, error) {
	if i.slowFromNow {
		i.slowFromNow = false
		time.Sleep(3 * time.Second)
	}
	return i.pair, nil
}

// zzSortedCopy: the canonical participant order, computed by the harness (plain insertion sort on the key
// bytes), independently of util.SortedByPublicKey.
func zzSortedCopy(in []*drand.Participant) []*drand.Participant {
	out := append([]*drand.Participant{}, in...)
	for i := 1; i < len(out); i++ {
		for j := i; j > 0 && bytes.Compare(out[j].Key, out[j-1].Key) < 0; j-- {
			out[j], out[j-1] = out[j-1], out[j]
		}
	}
	return out
}

// ZZ_C08_completion: the end of a key sharing, through the real setupDKG -> executeAndFinishDKG ->
// startDKGExecution -> asGroup -> DBState.Complete/Failed -> store, over the real DKG store, with the kyber
// protocol replaced by an ideal outcome chosen by the harness (see zz_ideal_dkg.go):
//   - a failed or timed-out execution writes only the current record (Failed) and leaves the completed epoch as it was;
//   - a successful one replaces the completed record by ONE write of a whole later epoch (Complete, group, share),
//     built from the stored terms and the qualified nodes in canonical order, and announces (old, new) once.
func ZZ_C08_completion() {
	w := zzNewWorld(4)
	now := time.Now()
	bolt, err := NewDKGStore(zz.TempDir("c08done"))
	if err != nil {
		panic(err)
	}
	hasPrev := zz.Param("first_epoch", 0) == 0
	finEpoch := uint32(0)
	seed := []byte(nil)
	var g1 *key.Group
	if hasPrev {
		finEpoch = 1
		seed = []byte("seed")
		var ep1 *zzfake.Epoch
		g1, ep1 = w.group(3, 2, 1700000000, seed)
		fin := &DBState{BeaconID: zzBeacon, Epoch: 1, State: Complete, Threshold: 2, Timeout: now.Add(-time.Hour), SchemeID: w.sch.Name,
			GenesisTime: time.Unix(1700000000, 0), GenesisSeed: seed, BeaconPeriod: 30 * time.Second, CatchupPeriod: 15 * time.Second,
			Leader: w.parts[1], Joining: w.parts[:3], Acceptors: w.parts[:3], FinalGroup: g1, KeyShare: ep1.Share(w.sch, 0)}
		if err := bolt.SaveFinished(zzBeacon, fin); err != nil {
			panic(err)
		}
	}
	// the attempt in progress: epoch finEpoch+1, this node (0) takes part, listing order symbolic
	cur := &DBState{BeaconID: zzBeacon, Epoch: finEpoch + 1, State: Executing, Threshold: 2, Timeout: now.Add(time.Hour), SchemeID: w.sch.Name,
		GenesisTime: time.Unix(1700000000, 0), GenesisSeed: seed, BeaconPeriod: 30 * time.Second, CatchupPeriod: 15 * time.Second, Leader: w.parts[1]}
	members := []*drand.Participant{w.parts[0], w.parts[1], w.parts[2]}
	if zz.Bool("listing.reversed") {
		members = []*drand.Participant{w.parts[2], w.parts[1], w.parts[0]}
	}
	withJoiner := hasPrev && zz.Bool("attempt.with_joiner")
	if hasPrev {
		cur.Remaining = members
		if withJoiner {
			cur.Joining = []*drand.Participant{w.parts[3]}
			cur.Threshold = 3
		}
	} else {
		cur.Joining = members
	}
	// the deadline may pass between the arrival of the protocol result and its recording (a slow node): the
	// attempt's deadline is 2 s away and the node's key lookup, which startDKGExecution performs after the
	// result, takes 3 s. (A deadline that passed BEFORE the result makes both select cases ready, which native
	// replay cannot force; that schedule is not explored.)
	expired := zz.Bool("attempt.deadline_passes_before_recording")
	if expired {
		cur.Timeout = time.Now().Add(2 * time.Second)
	}
	if err := bolt.SaveCurrent(zzBeacon, cur); err != nil {
		panic(err)
	}
	st := &zzRecStore{Store: bolt}
	outputs := util.NewFanOutChan[SharingOutput]()
	listener := outputs.Listen()
	ident := &zzSlowIdent{pair: w.pairs[0]}
	p := NewDKGProcess(st, ident, outputs, &zzClient{}, nil,
		Config{Timeout: time.Hour, TimeBetweenDKGPhases: 0, KickoffGracePeriod: time.Hour}, zzfake.Logger())
	ctx := context.Background()
	fin0, _ := st.GetFinished(zzBeacon)
	fin0 = zzCloneState(fin0)

	config, err := p.setupDKG(ctx, zzBeacon)
	zz.Assert("setup_succeeds_for_a_stored_attempt", err == nil && config != nil)
	if err != nil {
		return
	}
	all := append(append([]*drand.Participant{}, cur.Remaining...), cur.Joining...)
	sorted := zzSortedCopy(all)
	n := len(sorted)
	zz.Assert("protocol_gets_every_participant_in_canonical_order", len(config.NewNodes) == n)
	myIndex := -1
	for i, nd := range config.NewNodes {
		pk, _ := nd.Public.MarshalBinary()
		zz.Assert("protocol_gets_every_participant_in_canonical_order", int(nd.Index) == i && bytes.Equal(pk, sorted[i].Key))
		if sorted[i].Address == w.parts[0].Address {
			myIndex = i
		}
	}
	zz.Assert("protocol_threshold_is_the_stored_one", config.Threshold == int(cur.Threshold))
	if hasPrev {
		zz.Assert("reshare_uses_the_completed_epochs_share", config.Share != nil && config.Share.Share.V.Equal(fin0.KeyShare.Share.V) && config.OldThreshold == int(fin0.Threshold))
		zz.Assert("reshare_uses_the_completed_epochs_public_key", len(config.PublicCoeffs) == len(g1.PublicKey.Coefficients) && config.PublicCoeffs[0].Equal(g1.PublicKey.Coefficients[0]))
		zz.Assert("reshare_uses_the_completed_epochs_nodes", len(config.OldNodes) == len(g1.Nodes))
	} else {
		zz.Assert("first_epoch_has_no_previous_share", config.Share == nil && len(config.OldNodes) == 0)
	}

	// the ideal protocol outcome
	ep2 := zzfake.Deal(w.sch, n, int(cur.Threshold), "dkg-secret", "dkg-next-epoch")
	outcome := zz.Choose("protocol.outcome", 3) // 0 everybody qualified, 1 one other node disqualified, 2 protocol error
	dropped := -1
	if outcome == 1 {
		dropped = (myIndex + 1) % n
	}
	protoErr := errors.New("zz: key sharing failed")
	var qual []dkg.Node
	zzProtocolOutcome = func(c *dkg.Config) dkg.OptionResult {
		if outcome == 2 {
			return dkg.OptionResult{Error: protoErr}
		}
		for i, nd := range c.NewNodes {
			if i != dropped {
				qual = append(qual, nd)
			}
		}
		return dkg.OptionResult{Result: &dkg.Result{QUAL: qual, Key: &dkg.DistKeyShare{Commits: ep2.Commits, Share: ep2.Shares[myIndex]}}}
	}
	nops := len(st.ops)
	if expired {
		ident.slowFromNow = true
	}
	execErr := p.executeAndFinishDKG(ctx, zzBeacon, config)
	zz.Quiesce()
	finNow, _ := st.GetFinished(zzBeacon)
	curNow, _ := st.GetCurrent(zzBeacon)
	ops := st.ops[nops:]

	if execErr != nil {
		if expired {
			zz.Tag("deadline_passes_between_result_and_recording")
		}
		zz.Assert("failed_attempt_leaves_the_completed_epoch_intact", zzSameRecord(fin0, finNow))
		for _, op := range ops {
			zz.Assert("failed_attempt_writes_no_completed_record", len(op) < 8 || op[:8] != "finished")
		}
		zz.Assert("failed_attempt_is_recorded_as_failed", curNow.State == Failed && curNow.Epoch == cur.Epoch)
		select {
		case <-listener:
			zz.Assert("failed_attempt_is_not_announced", false)
		default:
		}
		p.Close()
		return
	}
	zz.Assert("success_only_with_a_protocol_result_before_the_deadline", outcome != 2 && !expired)
	zz.Assert("completion_is_one_write_of_the_completed_record", len(ops) == 1 && ops[0] == "finished:Complete")
	zz.Assert("completed_record_is_a_whole_later_epoch", finNow != nil && finNow.State == Complete && finNow.Epoch == finEpoch+1 && finNow.FinalGroup != nil && finNow.KeyShare != nil)
	if finNow == nil || finNow.FinalGroup == nil || finNow.KeyShare == nil {
		return
	}
	zz.Assert("current_record_is_the_completed_one", zzSameRecord(finNow, curNow))
	ng := finNow.FinalGroup
	zz.Assert("group_threshold_period_id_scheme_from_the_stored_terms", ng.Threshold == int(cur.Threshold) && ng.Period == cur.BeaconPeriod && ng.CatchupPeriod == cur.CatchupPeriod &&
		common.CompareBeaconIDs(ng.ID, zzBeacon) && ng.Scheme.Name == w.sch.Name && ng.GenesisTime == cur.GenesisTime.Unix())
	zz.Assert("group_nodes_are_the_qualified_ones", len(ng.Nodes) == len(qual))
	for i, q := range qual {
		if i < len(ng.Nodes) {
			want := sorted[q.Index]
			pk, _ := ng.Nodes[i].Key.MarshalBinary()
			zz.Assert("group_node_is_the_participant_at_its_canonical_index", ng.Nodes[i].Index == q.Index && ng.Nodes[i].Addr == want.Address && bytes.Equal(pk, want.Key) && bytes.Equal(ng.Nodes[i].Signature, want.Signature))
		}
	}
	zz.Assert("group_public_key_is_the_shares_commitments", ng.PublicKey != nil && len(ng.PublicKey.Coefficients) == len(ep2.Commits) && ng.PublicKey.Coefficients[0].Equal(ep2.Commits[0]))
	zz.Assert("stored_share_is_the_protocols_share", finNow.KeyShare.Share.I == ep2.Shares[myIndex].I && finNow.KeyShare.Share.V.Equal(ep2.Shares[myIndex].V))
	if hasPrev {
		zz.Assert("reshare_keeps_the_genesis_seed", bytes.Equal(ng.GenesisSeed, seed) && bytes.Equal(finNow.GenesisSeed, seed))
		period := int64(cur.BeaconPeriod / time.Second)
		zz.Assert("transition_time_is_a_future_round_boundary", ng.TransitionTime > now.Unix() && (ng.TransitionTime-ng.GenesisTime)%period == 0 && ng.TransitionTime <= time.Now().Unix()+11*period)
	} else {
		zz.Assert("first_epoch_transition_is_genesis", ng.TransitionTime == ng.GenesisTime)
		zz.Assert("first_epoch_seed_is_set", len(ng.GenesisSeed) > 0 && bytes.Equal(finNow.GenesisSeed, ng.GenesisSeed))
	}
	select {
	case out := <-listener:
		zz.Assert("completion_announces_old_and_new_epoch", out.BeaconID == zzBeacon && out.New.Epoch == finEpoch+1 && out.New.State == Complete &&
			((out.Old == nil) == (fin0 == nil)) && (out.Old == nil || out.Old.Epoch == finEpoch))
	default:
		zz.Assert("completion_is_announced", false)
	}
	select {
	case <-listener:
		zz.Assert("completion_is_announced_once", false)
	default:
	}
	p.Close()
}
