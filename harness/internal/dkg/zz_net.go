package dkg

import (
	"bytes"
	"context"
	"fmt"
	"time"

	"github.com/BurntSushi/toml"
	"google.golang.org/grpc"

	"github.com/drand/drand/v2/common/key"
	"github.com/drand/drand/v2/internal/net"
	"github.com/drand/drand/v2/internal/util"
	"github.com/drand/drand/v2/internal/zzfake"
	zz "github.com/drand/drand/v2/internal/zzverif"
	drand "github.com/drand/drand/v2/protobuf/dkg"
	"github.com/drand/kyber/share/dkg"
)

func init() { zz.Register("ZZ_C08_dkgNetwork", ZZ_C08_dkgNetwork) }

// zzDKGNet: n real DKG processes (Process over the real BoltStore, real signing/verification with ideal
// signatures, real gossip with its retries) joined by an in-process DKGClient with one-shot drop rules. The key
// sharing itself is the ideal protocol of zz_ideal_dkg.go: every node of an execution gets the same qualified
// set and public polynomial (derived from the execution's nonce) and the share at its own index.
type zzDKGNet struct {
	w       *zzWorld
	procs   []*Process
	stores  []*BoltStore
	outs    []chan SharingOutput
	dropOne map[string]int // "from>to" -> number of deliveries to fail
	sent    int
}

type zzDKGNetClient struct {
	n    *zzDKGNet
	from int
}

func (c *zzDKGNetClient) to(p net.Peer) int {
	for i, part := range c.n.w.parts {
		if part.Address == p.Address() {
			return i
		}
	}
	return -1
}

func (c *zzDKGNetClient) Packet(ctx context.Context, p net.Peer, packet *drand.GossipPacket, _ ...grpc.CallOption) (*drand.EmptyDKGResponse, error) {
	to := c.to(p)
	k := fmt.Sprintf("%d>%d", c.from, to)
	c.n.sent++
	if to < 0 || to >= len(c.n.procs) {
		return nil, errZZStore
	}
	if c.n.dropOne[k] > 0 {
		c.n.dropOne[k]--
		return nil, errZZStore
	}
	return c.n.procs[to].Packet(ctx, packet)
}

func (c *zzDKGNetClient) BroadcastDKG(ctx context.Context, p net.Peer, packet *drand.DKGPacket, _ ...grpc.CallOption) (*drand.EmptyDKGResponse, error) {
	to := c.to(p)
	if to < 0 || to >= len(c.n.procs) {
		return nil, errZZStore
	}
	return c.n.procs[to].BroadcastDKG(ctx, packet)
}

func zzNewDKGNet(n int) *zzDKGNet {
	w := zzNewWorld(n + 1) // the last identity is an outsider
	d := &zzDKGNet{w: w, dropOne: map[string]int{}}
	for i := 0; i < n; i++ {
		bolt, err := NewDKGStore(zz.TempDir(fmt.Sprintf("dkgnet%d", i)))
		if err != nil {
			panic(err)
		}
		outs := util.NewFanOutChan[SharingOutput]()
		d.outs = append(d.outs, outs.Listen())
		p := NewDKGProcess(bolt, &zzIdent{w.pairs[i]}, outs, &zzDKGNetClient{d, i}, nil,
			Config{Timeout: time.Hour, TimeBetweenDKGPhases: 0, KickoffGracePeriod: 0}, zzfake.Logger())
		d.procs = append(d.procs, p)
		d.stores = append(d.stores, bolt)
	}
	// one ideal outcome per execution, the same on every node: the polynomial is derived from the nonce
	zzProtocolOutcome = func(c *dkg.Config) dkg.OptionResult {
		ep := zzfake.Deal(w.sch, len(c.NewNodes), c.Threshold, "dkgnet-secret", fmt.Sprintf("dkgnet-%x", c.Nonce))
		my := c.Suite.Point().Mul(c.Longterm, nil)
		idx := -1
		for i, nd := range c.NewNodes {
			if nd.Public.Equal(my) {
				idx = i
			}
		}
		if idx < 0 {
			return dkg.OptionResult{Error: errZZStore}
		}
		return dkg.OptionResult{Result: &dkg.Result{QUAL: c.NewNodes, Key: &dkg.DistKeyShare{Commits: ep.Commits, Share: ep.Shares[idx]}}}
	}
	return d
}

func (d *zzDKGNet) cmd(i int, c *drand.DKGCommand) error {
	c.Metadata = &drand.CommandMetadata{BeaconID: zzBeacon}
	_, err := d.procs[i].Command(context.Background(), c)
	zz.Quiesce()
	return err
}

func (d *zzDKGNet) state(i int) *DBState {
	s, _ := d.stores[i].GetCurrent(zzBeacon)
	return s
}

func (d *zzDKGNet) finished(i int) *DBState {
	s, _ := d.stores[i].GetFinished(zzBeacon)
	return s
}

func (d *zzDKGNet) close() {
	for _, p := range d.procs {
		p.Close()
	}
}

// zzAgree: every node recorded the same completed epoch: one group description, own share at own index.
func (d *zzDKGNet) zzAgree(tag string, epoch uint32, members []int) {
	var ref *key.Group
	for _, i := range members {
		f := d.finished(i)
		zz.Assert(tag+"_every_member_records_the_completed_epoch", f != nil && f.State == Complete && f.Epoch == epoch && f.FinalGroup != nil && f.KeyShare != nil)
		if f == nil || f.FinalGroup == nil || f.KeyShare == nil {
			continue
		}
		if ref == nil {
			ref = f.FinalGroup
		} else {
			zz.Assert(tag+"_all_members_hold_the_same_group", bytes.Equal(ref.Hash(), f.FinalGroup.Hash()) && ref.Equal(f.FinalGroup))
		}
		nd := f.FinalGroup.Find(d.w.pairs[i].Public)
		zz.Assert(tag+"_own_share_at_own_index_under_the_group_key", nd != nil && uint32(f.KeyShare.Share.I) == nd.Index && f.KeyShare.Public().Equal(f.FinalGroup.PublicKey))
		zz.Assert(tag+"_current_record_is_the_completed_one", zzSameRecord(f, d.state(i)))
		select {
		case out := <-d.outs[i]:
			zz.Assert(tag+"_completion_announced", out.New.Epoch == epoch && out.New.State == Complete)
		default:
			zz.Assert(tag+"_completion_announced", false)
		}
	}
}

// ZZ_C08_dkgNetwork (also C06, C09): a bounded multi-node key-generation scenario on real processes.
//
//	epoch 1  node 0 proposes a network of three; a symbolic disturbance hits the proposal gossip (one delivery
//	         fails and is retried by the gossip layer / the proposal is delivered twice / an outsider injects a forged
//	         proposal first / nothing); the others join; the leader executes.
//	epoch 2  the leader proposes a resharing with a symbolic threshold; either everybody accepts, or node 2 rejects,
//	         the leader aborts and proposes again; then the leader executes.
//
// After each execution every member holds the same completed epoch -- one group description, its own share at its
// own index under the group's public key -- the genesis parameters carry over, nobody is stuck in a non-terminal
// state, and a forged or repeated packet never changed anything.
func ZZ_C08_dkgNetwork() {
	d := zzNewDKGNet(4) // processes 0..2 form the first network, 3 may join at the resharing; identity 4 is an outsider
	w := d.w
	now := time.Now()
	all := []int{0, 1, 2}
	joiners := []*drand.Participant{w.parts[0], w.parts[1], w.parts[2]}

	disturb := zz.Choose("epoch1.disturbance", 4)
	switch disturb {
	case 1:
		d.dropOne["0>2"] = 1 // the first delivery of the proposal to node 2 fails; gossip retries
	case 3:
		// an outsider (identity 4) sends node 1 a proposal naming node 0 as leader, signed with its own key
		terms := &drand.ProposalTerms{BeaconID: zzBeacon, Epoch: 1, Leader: w.parts[0], Threshold: 2, Timeout: zzTS(now.Add(2 * time.Hour)),
			GenesisTime: zzTS(time.Unix(1700000000, 0)), CatchupPeriodSeconds: 15, BeaconPeriodSeconds: 30, SchemeID: w.sch.Name, Joining: joiners}
		pkt := &drand.GossipPacket{Packet: &drand.GossipPacket_Proposal{Proposal: terms}}
		zzSign(w, 4, w.parts[0].Address, pkt, terms)
		_, err := d.procs[1].Packet(context.Background(), pkt)
		zz.Quiesce()
		zz.Assert("forged_proposal_is_refused", err != nil && d.state(1).State == Fresh)
	}
	err := d.cmd(0, &drand.DKGCommand{Command: &drand.DKGCommand_Initial{Initial: &drand.FirstProposalOptions{Timeout: zzTS(now.Add(time.Hour)), Threshold: 2,
		PeriodSeconds: 30, CatchupPeriodSeconds: 15, Scheme: w.sch.Name, GenesisTime: zzTS(time.Unix(1700000000, 0)), Joining: joiners}}})
	zz.Assert("leader_proposes", err == nil)
	for _, i := range []int{1, 2} {
		zz.Assert("proposal_reaches_every_participant", d.state(i).State == Proposed && d.state(i).Epoch == 1)
	}
	if disturb == 2 {
		// the same proposal is delivered again (a slow relay): it changes nothing
		before := zzCloneState(d.state(1))
		terms := termsFromState(d.state(0))
		pkt := &drand.GossipPacket{Packet: &drand.GossipPacket_Proposal{Proposal: terms}}
		zzSign(w, 0, w.parts[0].Address, pkt, terms)
		_, _ = d.procs[1].Packet(context.Background(), pkt)
		zz.Quiesce()
		zz.Assert("repeated_proposal_changes_nothing", zzSameRecord(before, d.state(1)))
	}
	for _, i := range []int{1, 2} {
		zz.Assert("participant_joins", d.cmd(i, &drand.DKGCommand{Command: &drand.DKGCommand_Join{Join: &drand.JoinOptions{}}}) == nil)
	}
	zz.Assert("leader_executes", d.cmd(0, &drand.DKGCommand{Command: &drand.DKGCommand_Execute{Execute: &drand.ExecutionOptions{}}}) == nil)
	zz.Quiesce()
	d.zzAgree("epoch1", 1, all)
	g1 := d.finished(0).FinalGroup
	if g1 == nil {
		d.close()
		return
	}

	// epoch 2: resharing
	thr := uint32(2 + zz.Choose("epoch2.threshold_delta", 2)) // 2 or 3
	withJoiner := zz.Bool("epoch2.a_new_node_joins")
	var newcomers []*drand.Participant
	members := all
	if withJoiner {
		newcomers = []*drand.Participant{w.parts[3]}
		members = []int{0, 1, 2, 3}
		thr = 3
	}
	// node 2 may be dropped from the network by this resharing (it stays reachable and is told so)
	leaves := zz.Bool("epoch2.node2_leaves")
	remaining, leaving := joiners, []*drand.Participant(nil)
	accepting := []int{1, 2}
	if leaves {
		remaining, leaving = []*drand.Participant{w.parts[0], w.parts[1]}, []*drand.Participant{w.parts[2]}
		accepting = []int{1}
		if withJoiner {
			members = []int{0, 1, 3}
			thr = 2 + uint32(zz.Choose("epoch2.threshold_with_leaver", 2))
		} else {
			members = []int{0, 1}
			thr = 2
		}
	}
	propose := func(timeout time.Time) error {
		return d.cmd(0, &drand.DKGCommand{Command: &drand.DKGCommand_Resharing{Resharing: &drand.ProposalOptions{Timeout: zzTS(timeout), Threshold: thr,
			CatchupPeriodSeconds: 15, Remaining: remaining, Leaving: leaving, Joining: newcomers}}})
	}
	zz.Assert("leader_proposes_a_resharing", propose(now.Add(time.Hour)) == nil)
	if !leaves && zz.Bool("epoch2.node2_rejects_first") {
		zz.Assert("member_rejects", d.cmd(2, &drand.DKGCommand{Command: &drand.DKGCommand_Reject{Reject: &drand.RejectOptions{}}}) == nil)
		zz.Assert("leader_sees_the_rejection", len(d.state(0).Rejectors) == 1)
		zz.Assert("leader_aborts", d.cmd(0, &drand.DKGCommand{Command: &drand.DKGCommand_Abort{Abort: &drand.AbortOptions{}}}) == nil)
		for _, i := range all {
			zz.Assert("abort_reaches_everybody", d.state(i).State == Aborted)
			zz.Assert("aborted_attempt_keeps_the_completed_epoch", d.finished(i) != nil && d.finished(i).Epoch == 1 && bytes.Equal(d.finished(i).FinalGroup.Hash(), g1.Hash()))
		}
		zz.Assert("leader_proposes_again_at_the_same_epoch", propose(now.Add(90*time.Minute)) == nil)
	}
	for _, i := range accepting {
		zz.Assert("member_accepts", d.cmd(i, &drand.DKGCommand{Command: &drand.DKGCommand_Accept{Accept: &drand.AcceptOptions{}}}) == nil)
	}
	if withJoiner {
		// the newcomer joins with the group file of the running network (as the operator would pass it)
		var gf bytes.Buffer
		if err := toml.NewEncoder(&gf).Encode(g1.TOML()); err != nil {
			panic(err)
		}
		zz.Assert("proposal_reaches_the_newcomer", d.state(3).State == Proposed && d.state(3).Epoch == 2)
		zz.Assert("newcomer_joins", d.cmd(3, &drand.DKGCommand{Command: &drand.DKGCommand_Join{Join: &drand.JoinOptions{GroupFile: gf.Bytes()}}}) == nil)
	}
	zz.Assert("leader_collected_the_acceptances", len(d.state(0).Acceptors) == len(accepting))
	zz.Assert("leader_executes_the_resharing", d.cmd(0, &drand.DKGCommand{Command: &drand.DKGCommand_Execute{Execute: &drand.ExecutionOptions{}}}) == nil)
	zz.Quiesce()
	d.zzAgree("epoch2", 2, members)
	if leaves {
		// the node that was dropped knows it left, and keeps the epoch it completed
		zz.Assert("dropped_node_records_that_it_left", d.state(2).State == Left && d.state(2).Epoch == 2)
		f := d.finished(2)
		zz.Assert("dropped_node_keeps_its_completed_epoch", f != nil && f.Epoch == 1 && f.State == Complete && bytes.Equal(f.FinalGroup.Hash(), g1.Hash()))
		g := d.finished(0).FinalGroup
		zz.Assert("dropped_node_is_not_in_the_new_group", g != nil && g.Find(w.pairs[2].Public) == nil)
	}
	g2 := d.finished(0).FinalGroup
	if g2 != nil {
		zz.Assert("resharing_keeps_genesis_time_seed_period_scheme_id", g2.GenesisTime == g1.GenesisTime && bytes.Equal(g2.GenesisSeed, g1.GenesisSeed) && g2.Period == g1.Period &&
			g2.Scheme.Name == g1.Scheme.Name && g2.ID == g1.ID)
		zz.Assert("resharing_installs_the_proposed_threshold", g2.Threshold == int(thr))
		zz.Assert("resharing_transition_is_in_the_future", g2.TransitionTime > now.Unix())
	}
	d.close()
}
