package dkg

import (
	"github.com/drand/kyber/share/dkg"
)

// Ideal key-sharing protocol. The kyber DKG itself (a third-party multi-round protocol over 255-bit field
// arithmetic) is outside the engine's reach; harnesses that need drand's code AROUND it to run
// (executeAndFinishDKG, startDKGExecution, asGroup, the store writes, the completion hand-over) load
// execution.go with ONE textual override: the call `dkg.NewProtocol(...)` becomes `zzNewProtocol(...)`.
// The stand-in hands startDKGExecution the outcome the harness chose (qualified nodes + share, or an error):
// everything drand does with that outcome is the tree's code.
type zzProtocol struct{ res chan dkg.OptionResult }

func (p *zzProtocol) WaitEnd() <-chan dkg.OptionResult { return p.res }

// zzProtocolOutcome is set by the harness before the execution starts.
var zzProtocolOutcome func(c *dkg.Config) dkg.OptionResult

// zzProtocolConfigs records the configuration each execution handed to the protocol.
var zzProtocolConfigs []*dkg.Config

func zzNewProtocol(c *dkg.Config, _ dkg.Board, _ dkg.Phaser, _ bool) (*zzProtocol, error) {
	zzProtocolConfigs = append(zzProtocolConfigs, c)
	p := &zzProtocol{res: make(chan dkg.OptionResult, 1)}
	if zzProtocolOutcome != nil {
		p.res <- zzProtocolOutcome(c)
	}
	return p, nil
}
