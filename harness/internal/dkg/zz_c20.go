package dkg

import (
	"bytes"
	"fmt"
	"time"

	"github.com/drand/drand/v2/common/key"
	"github.com/drand/drand/v2/internal/util"
	zz "github.com/drand/drand/v2/internal/zzverif"
	drand "github.com/drand/drand/v2/protobuf/dkg"
)

func init() { zz.Register("ZZ_C20_dkgRecord", ZZ_C20_dkgRecord) }

// ZZ_C20_dkgRecord: the key-generation database record. DBState has a hand-maintained TOML mirror (the source
// warns that fields may be forgotten): every field of an arbitrary state -- every status, every participant
// list, with and without final group and share -- survives DBState.TOML -> DBStateTOML.FromTOML, and survives
// the real store (SaveCurrent / SaveFinished -> GetCurrent / GetFinished over bbolt).
func ZZ_C20_dkgRecord() {
	w := zzNewWorld(4)
	d := &DBState{BeaconID: zzBeacon, SchemeID: w.sch.Name}
	st := zz.U32("status")
	zz.Assume(st < 12)
	d.State = Status(st)
	d.Epoch = zz.U32("epoch")
	d.Threshold = zz.U32("threshold")
	d.Timeout = time.Unix(int64(zz.U32("timeout_s")), 0).UTC()
	d.GenesisTime = time.Unix(int64(zz.U32("genesis_s")), 0).UTC()
	d.GenesisSeed = zz.Bytes("seed", zz.Len("seed.len", 0, 2))
	d.BeaconPeriod = time.Duration(zz.U32("period_s")) * time.Second
	d.CatchupPeriod = time.Duration(zz.U32("catchup_s")) * time.Second
	// the five participant lists: all absent, or all present with DIFFERENT contents (so that a list stored
	// under another list's name is noticed), signatures symbolic
	present := zz.Bool("lists.present")
	pick := func(name string, k int) []*drand.Participant {
		if !present {
			return nil
		}
		var out []*drand.Participant
		for i := 0; i <= k%2; i++ {
			p := zzCloneP(w.parts[(i+k)%4])
			p.Signature = zz.Bytes(fmt.Sprintf("%s.sig%d", name, i), 2)
			out = append(out, p)
		}
		return out
	}
	d.Leader = zzCloneP(w.parts[zz.Choose("leader", 4)])
	if zz.Bool("leader.absent") {
		d.Leader = nil
	}
	d.Remaining, d.Joining, d.Leaving = pick("remaining", 0), pick("joining", 1), pick("leaving", 2)
	d.Acceptors, d.Rejectors = pick("acceptors", 3), pick("rejectors", 4)
	withGroup := zz.Bool("with_final_group_and_share")
	if withGroup {
		g, ep := w.group(3, 2, int64(zz.U32("group.genesis_s"))+1, []byte("seed"))
		g.TransitionTime = int64(zz.U32("group.transition_s"))
		d.FinalGroup = g
		d.KeyShare = ep.Share(w.sch, zz.Choose("share.index", 3))
	}

	check := func(tag string, got *DBState) {
		zz.Assert(tag+"_scalars", got.BeaconID == d.BeaconID && got.Epoch == d.Epoch && got.State == d.State && got.Threshold == d.Threshold && got.SchemeID == d.SchemeID)
		zz.Assert(tag+"_times", got.Timeout.Unix() == d.Timeout.Unix() && got.GenesisTime.Unix() == d.GenesisTime.Unix())
		zz.Assert(tag+"_periods", got.BeaconPeriod == d.BeaconPeriod && got.CatchupPeriod == d.CatchupPeriod)
		zz.Assert(tag+"_seed", bytes.Equal(got.GenesisSeed, d.GenesisSeed))
		zz.Assert(tag+"_leader", (got.Leader == nil) == (d.Leader == nil) && (d.Leader == nil || util.EqualParticipant(got.Leader, d.Leader)))
		zz.Assert(tag+"_remaining", zzSameParts(got.Remaining, d.Remaining))
		zz.Assert(tag+"_joining", zzSameParts(got.Joining, d.Joining))
		zz.Assert(tag+"_leaving", zzSameParts(got.Leaving, d.Leaving))
		zz.Assert(tag+"_acceptors", zzSameParts(got.Acceptors, d.Acceptors))
		zz.Assert(tag+"_rejectors", zzSameParts(got.Rejectors, d.Rejectors))
		zz.Assert(tag+"_group_and_share_presence", (got.FinalGroup == nil) == (d.FinalGroup == nil) && (got.KeyShare == nil) == (d.KeyShare == nil))
		if d.FinalGroup != nil && got.FinalGroup != nil {
			zz.Assert(tag+"_final_group", got.FinalGroup.Equal(d.FinalGroup) && bytes.Equal(got.FinalGroup.Hash(), d.FinalGroup.Hash()) && got.FinalGroup.TransitionTime == d.FinalGroup.TransitionTime)
		}
		if d.KeyShare != nil && got.KeyShare != nil {
			zz.Assert(tag+"_key_share", got.KeyShare.Share.I == d.KeyShare.Share.I && got.KeyShare.Share.V.Equal(d.KeyShare.Share.V) && got.KeyShare.Public().Equal(d.KeyShare.Public()))
		}
	}
	t := d.TOML()
	back, err := t.FromTOML()
	zz.Assert("mirror_decodes", err == nil && back != nil)
	if err == nil && back != nil {
		check("mirror", back)
	}
	// through the real store
	bolt, err := NewDKGStore(zz.TempDir("c20dkg"))
	if err != nil {
		panic(err)
	}
	if zz.Bool("saved_as_finished") {
		zz.Assert("store_saves", bolt.SaveFinished(zzBeacon, d) == nil)
		got, err := bolt.GetFinished(zzBeacon)
		zz.Assert("store_reads_back", err == nil && got != nil)
		if err == nil && got != nil {
			check("stored_finished", got)
		}
	}
	zz.Assert("store_saves", bolt.SaveCurrent(zzBeacon, d) == nil)
	got, err := bolt.GetCurrent(zzBeacon)
	zz.Assert("store_reads_back", err == nil && got != nil)
	if err == nil && got != nil {
		check("stored_current", got)
	}
	_ = bolt.Close()
	_ = key.MinimumT
}
