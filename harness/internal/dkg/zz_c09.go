package dkg

import (
	"bytes"
	"context"
	"time"

	"github.com/drand/drand/v2/internal/util"
	"github.com/drand/drand/v2/internal/zzfake"
	zz "github.com/drand/drand/v2/internal/zzverif"
	drand "github.com/drand/drand/v2/protobuf/dkg"
)

func init() {
	zz.Register("ZZ_C09_signatureCoverage", ZZ_C09_signatureCoverage)
	zz.Register("ZZ_C09_senderAuth", ZZ_C09_senderAuth)
}

func zzTerms(w *zzWorld, epoch uint32, leader int, remaining, joining, leaving []*drand.Participant) *drand.ProposalTerms {
	return &drand.ProposalTerms{BeaconID: zzBeacon, Epoch: epoch, Leader: w.parts[leader], Threshold: 2,
		Timeout: zzTS(time.Now().Add(time.Hour)), GenesisTime: zzTS(time.Unix(1700000000, 0)), GenesisSeed: []byte("seed"),
		CatchupPeriodSeconds: 15, BeaconPeriodSeconds: 30, SchemeID: w.sch.Name, Remaining: remaining, Joining: joining, Leaving: leaving}
}

func zzCloneP(p *drand.Participant) *drand.Participant {
	return &drand.Participant{Address: p.Address, Key: append([]byte(nil), p.Key...), Signature: append([]byte(nil), p.Signature...)}
}

// ZZ_C09_signatureCoverage: the signed message must change when any single term changes.
// Two proposals that differ in exactly one field (symbolic choice, symbolic new value) are serialised by
// the real messageForSigning; equal messages mean a signature over one is valid for the other.
func ZZ_C09_signatureCoverage() {
	w := zzNewWorld(4)
	mk := func() *drand.ProposalTerms {
		return zzTerms(w, 2, 0, []*drand.Participant{zzCloneP(w.parts[0]), zzCloneP(w.parts[1])}, []*drand.Participant{zzCloneP(w.parts[3])}, []*drand.Participant{zzCloneP(w.parts[2])})
	}
	a, b := mk(), mk()
	b.Timeout = zzTS(a.Timeout.AsTime()) // one instant for both (time.Now() moves natively)
	field := zz.Choose("field", 16)
	names := []string{"BeaconID", "Epoch", "Threshold", "Timeout", "CatchupPeriodSeconds", "BeaconPeriodSeconds", "SchemeID", "GenesisTime", "GenesisSeed",
		"Leader.Address", "Remaining.Address", "Remaining.Key", "Remaining.Signature", "Joining.Key", "Leaving.Key", "Leader.Key"}
	zz.Tag("field=" + names[field])
	switch field {
	case 0:
		b.BeaconID = zz.String("new.id", 3)
		zz.Assume(b.BeaconID != a.BeaconID)
	case 1:
		b.Epoch = zz.U32("new.epoch")
		zz.Assume(b.Epoch != a.Epoch)
	case 2:
		b.Threshold = zz.U32("new.threshold")
		zz.Assume(b.Threshold != a.Threshold)
	case 3:
		b.Timeout = zzTS(a.Timeout.AsTime().Add(time.Duration(1+zz.Choose("new.timeout_delta", 3)) * time.Second))
	case 4:
		b.CatchupPeriodSeconds = zz.U32("new.catchup")
		zz.Assume(b.CatchupPeriodSeconds != a.CatchupPeriodSeconds)
	case 5:
		b.BeaconPeriodSeconds = zz.U32("new.period")
		zz.Assume(b.BeaconPeriodSeconds != a.BeaconPeriodSeconds)
	case 6:
		b.SchemeID = "pedersen-bls-unchained"
	case 7:
		b.GenesisTime = zzTS(a.GenesisTime.AsTime().Add(time.Duration(1+zz.Choose("new.genesis_delta", 3)) * time.Second))
	case 8:
		b.GenesisSeed = zz.Bytes("new.seed", 4)
		zz.Assume(!bytes.Equal(b.GenesisSeed, a.GenesisSeed))
	case 9:
		b.Leader = zzCloneP(b.Leader)
		b.Leader.Address = zz.String("new.leader_addr", 5)
		zz.Assume(b.Leader.Address != a.Leader.Address)
	case 10:
		b.Remaining[1].Address = zz.String("new.remaining_addr", 5)
		zz.Assume(b.Remaining[1].Address != a.Remaining[1].Address)
	case 11:
		b.Remaining[1].Key = zz.Bytes("new.remaining_key", len(a.Remaining[1].Key))
		zz.Assume(!bytes.Equal(b.Remaining[1].Key, a.Remaining[1].Key))
	case 12:
		b.Remaining[1].Signature = zz.Bytes("new.remaining_sig", len(a.Remaining[1].Signature))
		zz.Assume(!bytes.Equal(b.Remaining[1].Signature, a.Remaining[1].Signature))
	case 13:
		b.Joining[0].Key = zz.Bytes("new.joining_key", len(a.Joining[0].Key))
		zz.Assume(!bytes.Equal(b.Joining[0].Key, a.Joining[0].Key))
	case 14:
		b.Leaving[0].Key = zz.Bytes("new.leaving_key", len(a.Leaving[0].Key))
		zz.Assume(!bytes.Equal(b.Leaving[0].Key, a.Leaving[0].Key))
	case 15:
		b.Leader = zzCloneP(b.Leader)
		b.Leader.Key = zz.Bytes("new.leader_key", len(a.Leader.Key))
		zz.Assume(!bytes.Equal(b.Leader.Key, a.Leader.Key))
	}
	kind := zz.Choose("packet", 4)
	mkPkt := func(t *drand.ProposalTerms) *drand.GossipPacket {
		switch kind {
		case 0:
			return &drand.GossipPacket{Packet: &drand.GossipPacket_Proposal{Proposal: t}}
		case 1:
			return &drand.GossipPacket{Packet: &drand.GossipPacket_Accept{Accept: &drand.AcceptProposal{Acceptor: t.Remaining[1]}}}
		case 2:
			return &drand.GossipPacket{Packet: &drand.GossipPacket_Execute{Execute: &drand.StartExecution{Time: zzTS(time.Unix(1800000000, 0))}}}
		}
		return &drand.GossipPacket{Packet: &drand.GossipPacket_Abort{Abort: &drand.AbortDKG{Reason: "r"}}}
	}
	ma := messageForSigning(zzBeacon, mkPkt(a), a)
	mb := messageForSigning(zzBeacon, mkPkt(b), b)
	zz.Assert("signed_message_covers_every_term", !bytes.Equal(ma, mb))
}

// ZZ_C09_senderAuth: a gossip packet reaches Process.Packet of a node that is a current group member.
// The node must change state only if the packet is signed with the key its CURRENT GROUP records for the
// claimed sender (or, for a fresh joiner, the key in the proposal) and the sender is entitled to the action.
func ZZ_C09_senderAuth() {
	w := zzNewWorld(4) // 0,1,2 current group; 3 the attacker / outsider
	g, ep := w.group(3, 2, 1700000000, []byte("seed"))
	fresh := zz.Bool("receiver.fresh")
	st := &zzStore{}
	me := 0
	if fresh {
		me = 3 // a fresh joiner has no group: it can only rely on the proposal
	} else {
		st.finished = &DBState{BeaconID: zzBeacon, Epoch: 1, State: Complete, Threshold: 2, Timeout: time.Now().Add(-time.Hour), SchemeID: w.sch.Name,
			GenesisTime: time.Unix(1700000000, 0), GenesisSeed: []byte("seed"), BeaconPeriod: 30 * time.Second, CatchupPeriod: 15 * time.Second,
			Leader: w.parts[1], Remaining: w.parts[:3], FinalGroup: g, KeyShare: ep.Share(w.sch, 0)}
	}
	cl := &zzClient{}
	p := zzProcess(w, me, st, cl)

	// the proposal claims to come from member 1 (the leader), epoch 2
	claimed := 1
	// who really signs, and which key the proposal lists for member 1
	signer := []int{1, 2, 3}[zz.Choose("signer", 3)] // the right key, another member's key, the outsider's key
	listed := zzCloneP(w.parts[claimed])
	substituted := zz.Bool("proposal.substitutes_key")
	if substituted {
		// the packet lists the signer's key (and self-signature) under member 1's address
		listed.Key = w.parts[signer].Key
		listed.Signature = w.parts[signer].Signature
	}
	remaining := []*drand.Participant{w.parts[0], listed, w.parts[2]}
	var joining []*drand.Participant
	if fresh {
		joining = []*drand.Participant{w.parts[3]}
	}
	// a joiner entry may carry the SAME ADDRESS as a member (with the signer's validly self-signed key):
	// address look-ups that do not stop at the recorded member would then pick the wrong key
	shadow := zz.Bool("proposal.joiner_shadows_leader_address")
	claimAddr := w.parts[claimed].Address
	if shadow {
		sh := zzCloneP(w.parts[signer])
		sh.Address = w.parts[claimed].Address
		if zz.Bool("proposal.shadow_address_differs_in_case_only") {
			// ... or an address that only LOOKS like the member's (same host in another case), which the packet
			// then also names as its sender: a comparison looser than the key look-up would take it for the member
			sh.Address = "NODE1.example:4001"
			claimAddr = sh.Address
			zz.Tag("shadow_address_differs_in_case_only")
		}
		joining = append(joining, sh)
	}
	terms := zzTerms(w, 2, claimed, remaining, joining, nil)
	terms.Leader = listed
	if shadow {
		terms.Threshold = 3
	}
	if fresh {
		terms.Threshold = 3 // 4 nodes
	}
	pkt := &drand.GossipPacket{Packet: &drand.GossipPacket_Proposal{Proposal: terms}}
	zzSign(w, signer, claimAddr, pkt, terms)
	_, err := p.Packet(context.Background(), pkt)
	zz.Quiesce()
	changed := len(st.ops) > 0
	zz.Assert("error_means_no_state_change", err == nil || !changed)
	if changed {
		if !fresh {
			if substituted && signer != claimed {
				zz.Tag("member_accepts_key_substituted_in_packet")
			}
			zz.Assert("member_authenticates_against_current_group_key", signer == claimed)
		} else {
			zz.Assert("joiner_authenticates_against_proposal_key", signer == claimed || substituted)
		}
		zz.Assert("saved_state_is_proposed", st.current != nil && st.current.State == Proposed)
	}
	if signer == claimed && !substituted && !shadow {
		zz.Assert("genuine_proposal_is_accepted", err == nil && changed)
	}
	_ = util.Contains
	_ = zzfake.Logger
}

func init() { zz.Register("ZZ_C09_controlPackets", ZZ_C09_controlPackets) }

// ZZ_C09_controlPackets: accept / reject / abort / execute packets reach Process.Packet of a node that has a
// proposal pending (stored in the REAL DKG store, so what later reads see is what the store hands out).
// Claimed sender, named acceptor and signing key are symbolic. The node's DKG state (as read back from the
// store) changes only if the packet is signed by the participant it names as sender and that participant is
// entitled to the action: only the leader aborts or executes, only a remaining member accepts or rejects, and
// only for itself. A refused packet leaves the state exactly as it was.
func ZZ_C09_controlPackets() {
	// 0 = this node, 1 = leader, 2 = another remaining member, 3 = joiner or outsider -- whose address may be the
	// leader's in another case (its own key): it is still not the leader
	hasJoiner := zz.Bool("proposal.has_joiner")
	lookalike := false
	if hasJoiner {
		lookalike = zz.Bool("participant3.address_is_the_leaders_in_another_case")
	}
	var w *zzWorld
	if lookalike {
		w = zzNewWorldAddr(4, 3, "NODE1.example:4001")
		zz.Tag("participant3_address_differs_from_the_leaders_in_case_only")
	} else {
		w = zzNewWorld(4)
	}
	bolt, err := NewDKGStore(zz.TempDir("c09ctl"))
	if err != nil {
		panic(err)
	}
	g, ep := w.group(3, 2, 1700000000, []byte("seed"))
	fin := &DBState{BeaconID: zzBeacon, Epoch: 1, State: Complete, Threshold: 2, Timeout: time.Now().Add(-time.Hour), SchemeID: w.sch.Name,
		GenesisTime: time.Unix(1700000000, 0), GenesisSeed: []byte("seed"), BeaconPeriod: 30 * time.Second, CatchupPeriod: 15 * time.Second,
		Leader: w.parts[1], Joining: w.parts[:3], Acceptors: w.parts[:3], FinalGroup: g, KeyShare: ep.Share(w.sch, 0)}
	if err := bolt.SaveFinished(zzBeacon, fin); err != nil {
		panic(err)
	}
	var joining []*drand.Participant
	if hasJoiner {
		joining = []*drand.Participant{w.parts[3]}
	}
	cur := &DBState{BeaconID: zzBeacon, Epoch: 2, State: []Status{Proposed, Accepted}[zz.Choose("state", 2)], Threshold: 2, Timeout: time.Now().Add(time.Hour),
		SchemeID: w.sch.Name, GenesisTime: time.Unix(1700000000, 0), GenesisSeed: []byte("seed"), BeaconPeriod: 30 * time.Second, CatchupPeriod: 15 * time.Second,
		Leader: w.parts[1], Remaining: w.parts[:3], Joining: joining}
	if cur.State == Accepted {
		cur.Acceptors = []*drand.Participant{w.parts[0]}
	}
	if err := bolt.SaveCurrent(zzBeacon, cur); err != nil {
		panic(err)
	}
	st := &zzRecStore{Store: bolt}
	p := NewDKGProcess(st, &zzIdent{w.pairs[0]}, util.NewFanOutChan[SharingOutput](), &zzClient{}, nil,
		Config{Timeout: time.Hour, TimeBetweenDKGPhases: time.Second, KickoffGracePeriod: time.Hour}, zzfake.Logger())
	before, _ := st.GetCurrent(zzBeacon)
	before = zzCloneState(before)
	terms := termsFromState(before)

	// claimed sender: this node ITSELF (0: a packet naming the receiver as its author can only be a forgery here,
	// the signing key is never the receiver's own), the leader (1), member 2, participant 3
	claimed := zz.Choose("claimed_sender", 4)
	signer := 1 + zz.Choose("signer", 3)
	named := zz.Choose("named_participant", 4) // whom an accept/reject packet names (0 = the receiver)
	kind := zz.Choose("packet", 4)
	var pkt *drand.GossipPacket
	switch kind {
	case 0:
		pkt = &drand.GossipPacket{Packet: &drand.GossipPacket_Accept{Accept: &drand.AcceptProposal{Acceptor: w.parts[named]}}}
	case 1:
		pkt = &drand.GossipPacket{Packet: &drand.GossipPacket_Reject{Reject: &drand.RejectProposal{Rejector: w.parts[named]}}}
	case 2:
		pkt = &drand.GossipPacket{Packet: &drand.GossipPacket_Abort{Abort: &drand.AbortDKG{Reason: "r"}}}
	case 3:
		pkt = &drand.GossipPacket{Packet: &drand.GossipPacket_Execute{Execute: &drand.StartExecution{Time: zzTS(time.Now().Add(time.Hour))}}}
	}
	zzSign(w, signer, w.parts[claimed].Address, pkt, terms)
	_, perr := p.Packet(context.Background(), pkt)
	zz.Quiesce()
	after, _ := st.GetCurrent(zzBeacon)
	changed := len(st.ops) > 0 || !zzSameRecord(before, after)
	if perr != nil {
		zz.Assert("refused_packet_leaves_the_state_as_it_was", !changed)
	}
	if changed {
		zz.Assert("state_changes_only_on_a_packet_signed_by_its_claimed_sender", signer == claimed)
		switch kind {
		case 0, 1:
			zz.Assert("accept_or_reject_only_by_the_named_member_itself", named == claimed)
			zz.Assert("accept_or_reject_only_by_a_remaining_member", named == 0 || named == 1 || named == 2)
		case 2, 3:
			zz.Assert("abort_or_execute_only_by_the_leader", claimed == 1)
		}
	}
	// (an execute packet applies only once this node has accepted: Proposed -> Executing is not a transition)
	if signer == claimed && ((kind <= 1 && named == claimed && claimed != 3) || (kind == 2 && claimed == 1) || (kind == 3 && claimed == 1 && before.State == Accepted)) {
		zz.Assert("genuine_entitled_packet_is_applied", perr == nil && changed)
	}
	p.Close()
}
