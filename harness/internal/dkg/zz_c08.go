package dkg

import (
	"bytes"
	"time"

	"github.com/drand/drand/v2/internal/zzfake"
	zz "github.com/drand/drand/v2/internal/zzverif"
	drand "github.com/drand/drand/v2/protobuf/dkg"
	"github.com/drand/kyber/share/dkg"
)

func init() {
	zz.Register("ZZ_C08_stepLegality", ZZ_C08_stepLegality)
	zz.Register("ZZ_C08_proposalValidation", ZZ_C08_proposalValidation)
}

// zzLegal is the protocol's transition relation, transcribed from the protocol description
// (DKG status documentation): from -> allowed next states.
var zzLegal = map[Status][]Status{
	Fresh:     {Proposing, Proposed},
	Joined:    {Left, Executing, Aborted, TimedOut},
	Proposing: {Executing, Aborted, TimedOut},
	Proposed:  {Accepted, Rejected, Joined, Left, Aborted, TimedOut},
	Accepted:  {Executing, Aborted, TimedOut},
	Rejected:  {Aborted, TimedOut},
	Executing: {Complete, TimedOut, Failed},
	Complete:  {Proposing, Proposed},
	Left:      {Joined, Aborted, Proposed},
	Aborted:   {Proposing, Proposed},
	TimedOut:  {Proposing, Proposed, Aborted},
	Failed:    {Proposing, Proposed, Left, Aborted},
}

func zzIsLegal(from, to Status) bool {
	for _, t := range zzLegal[from] {
		if t == to {
			return true
		}
	}
	return false
}

// zzPreState: an arbitrary stored state: any status, roles of 3 identities symbolic.
func zzPreState(w *zzWorld, pfx string) (*DBState, []int) {
	now := time.Now()
	d := &DBState{BeaconID: zzBeacon, SchemeID: w.sch.Name, BeaconPeriod: 30 * time.Second, CatchupPeriod: 15 * time.Second}
	st := zz.U32(pfx + ".status")
	zz.Assume(st < 12)
	d.State = Status(st)
	d.Epoch = zz.U32(pfx + ".epoch")
	zz.Assume(d.Epoch < 1000)
	d.Threshold = 2
	d.GenesisTime = time.Unix(1700000000, 0)
	d.GenesisSeed = []byte("seed")
	if zz.Bool(pfx + ".expired") {
		d.Timeout = now.Add(-time.Hour)
	} else {
		d.Timeout = now.Add(time.Hour)
	}
	roles := make([]int, 3)
	roles[0] = zz.Choose(pfx+".role0", 4)     // me: 0 none 1 remaining 2 joining 3 leaving
	roles[1] = 1 + 2*zz.Choose(pfx+".role1", 2) // the other candidate leader: remaining or leaving
	roles[2] = 1
	for i := 0; i < 3; i++ {
		switch roles[i] {
		case 1:
			d.Remaining = append(d.Remaining, w.parts[i])
		case 2:
			d.Joining = append(d.Joining, w.parts[i])
		case 3:
			d.Leaving = append(d.Leaving, w.parts[i])
		}
	}
	d.Leader = w.parts[zz.Choose(pfx+".leader", 2)]
	if zz.Bool(pfx + ".has_final_group") {
		g, _ := w.group(3, 2, 1700000000, []byte("seed"))
		d.FinalGroup = g
	}
	return d, roles
}

// ZZ_C08_stepLegality: one state-machine event from an arbitrary stored state. A step that returns no error
// is a legal transition of the protocol for this node's role, and the epoch never decreases.
func ZZ_C08_stepLegality() {
	w := zzNewWorld(3)
	me := w.parts[0]
	d, roles := zzPreState(w, "pre")
	from, epoch := d.State, d.Epoch
	md := &drand.GossipMetadata{BeaconID: zzBeacon, Address: w.parts[zz.Choose("event.sender", 2)].Address}
	ev := zz.Choose("event", 11)
	var next *DBState
	var err error
	switch ev {
	case 0:
		next, err = d.Accepted(me)
	case 1:
		next, err = d.Rejected(me)
	case 2:
		next, err = d.Left(me)
	case 3:
		next, err = d.StartExecuting(me)
	case 4:
		next, err = d.Executing(me, md)
	case 5:
		g, ep := w.group(3, 2, 1700000000, []byte("seed"))
		next, err = d.Complete(g, ep.Share(w.sch, 0))
	case 6:
		next, err = d.TimedOut()
	case 7:
		next, err = d.StartAbort()
	case 8:
		next, err = d.Aborted(md)
	case 9:
		next, err = d.Failed()
	case 10:
		next, err = d.Joined(me, d.FinalGroup)
	}
	if err != nil {
		zz.Reach("rejected")
		return
	}
	zz.Assert("successful_step_is_a_legal_transition", next.State == from || zzIsLegal(from, next.State))
	zz.Assert("epoch_never_decreases", next.Epoch >= epoch)
	expired := !d.Timeout.After(time.Now())
	switch ev {
	case 0, 1:
		zz.Assert("accept_reject_only_by_a_remaining_member", roles[0] != 2 && roles[0] != 3)
		zz.Assert("accept_reject_not_after_timeout", !expired)
	case 2:
		zz.Assert("leave_only_for_leaver_or_joiner", roles[0] == 3 || roles[0] == 2)
	case 3:
		if next.State == Executing {
			zz.Assert("only_leader_starts_execution", bytes.Equal(d.Leader.Key, me.Key) && d.Leader.Address == me.Address)
		}
		zz.Assert("no_execution_after_timeout", !expired)
	case 4:
		if next.State == Executing {
			zz.Assert("execute_only_from_leader", md.Address == d.Leader.Address)
			zz.Assert("execute_only_for_participants", roles[0] == 1 || roles[0] == 2)
		}
		zz.Assert("no_execution_after_timeout", !expired)
	case 5:
		zz.Assert("complete_only_from_executing", from == Executing && !expired)
	case 8:
		zz.Assert("remote_abort_only_from_leader", md.Address == d.Leader.Address)
	case 10:
		zz.Assert("join_only_for_joiner", roles[0] == 2 && !expired)
	}
}

// ZZ_C08_proposalValidation: a proposal (received or made) against an arbitrary stored state.
// Accepted proposals satisfy the rules the property lists; listed defects are rejected.
func ZZ_C08_proposalValidation() {
	w := zzNewWorld(4)
	me := w.parts[0]
	now := time.Now()
	// stored state: Fresh, or a completed epoch e with the group {0,1,2}, or a terminal/left state of that epoch
	d := NewFreshState(zzBeacon)
	hasGroup := zz.Bool("pre.has_completed_epoch")
	curEpoch := uint32(0)
	if hasGroup {
		curEpoch = zz.U32("pre.epoch")
		zz.Assume(curEpoch >= 1 && curEpoch < 1000)
		g, ep := w.group(3, 2, 1700000000, []byte("seed"))
		d = &DBState{BeaconID: zzBeacon, Epoch: curEpoch, State: []Status{Complete, Aborted, TimedOut, Failed, Left}[zz.Choose("pre.status", zz.Param("status_options", 5))], Threshold: 2,
			Timeout: now.Add(-time.Hour), SchemeID: w.sch.Name, GenesisTime: time.Unix(1700000000, 0), GenesisSeed: []byte("seed"),
			BeaconPeriod: 30 * time.Second, CatchupPeriod: 15 * time.Second, Leader: w.parts[0], Remaining: w.parts[:3], FinalGroup: g, KeyShare: ep.Share(w.sch, 0)}
	}
	from := d.State
	// the proposal
	terms := &drand.ProposalTerms{BeaconID: zzBeacon, SchemeID: w.sch.Name, BeaconPeriodSeconds: 30, CatchupPeriodSeconds: 15}
	terms.Epoch = zz.U32("terms.epoch")
	terms.Threshold = zz.U32("terms.threshold")
	if zz.Bool("terms.expired") {
		terms.Timeout = zzTS(now.Add(-time.Hour))
	} else {
		terms.Timeout = zzTS(now.Add(time.Hour))
	}
	terms.GenesisTime = zzTS(time.Unix(1700000000+int64(zz.Choose("terms.genesis_delta", zz.Param("genesis_options", 2))), 0))
	switch zz.Choose("terms.seed", zz.Param("seed_options", 3)) {
	case 1:
		terms.GenesisSeed = []byte("seed")
	case 2:
		terms.GenesisSeed = []byte("other")
	}
	roles := make([]int, 4)
	roles[0] = zz.Choose("terms.role0", 4)             // me
	roles[1] = []int{1, 3, 0, 2}[zz.Choose("terms.role1", zz.Param("role1_options", 3))] // a current member: remains, leaves, forgotten (or joins)
	roles[2] = []int{1, 2, 3}[zz.Choose("terms.role2", zz.Param("role2_options", 2))] // remains, joins (wrongly), or leaves
	roles[3] = []int{0, 2, 1}[zz.Choose("terms.role3", zz.Param("role3_options", 3))] // the outsider: absent, joins, or wrongly listed as remaining
	for i := 0; i < 4; i++ {
		switch roles[i] {
		case 1:
			terms.Remaining = append(terms.Remaining, w.parts[i])
		case 2:
			terms.Joining = append(terms.Joining, w.parts[i])
		case 3:
			terms.Leaving = append(terms.Leaving, w.parts[i])
		}
	}
	// malformed lists: a participant listed twice (within one list or across two)
	switch zz.Choose("terms.duplicate", 3) {
	case 1:
		terms.Leaving = append(terms.Leaving, w.parts[1])
	case 2:
		terms.Remaining = append(terms.Remaining, w.parts[1])
	}
	listed := func(list []*drand.Participant, i int) bool {
		for _, p := range list {
			if p.Address == w.parts[i].Address {
				return true
			}
		}
		return false
	}
	leader := zz.Choose("terms.leader", 2)
	terms.Leader = w.parts[leader]
	received := zz.Bool("received")
	var next *DBState
	var err error
	if received {
		md := &drand.GossipMetadata{BeaconID: zzBeacon, Address: w.parts[zz.Choose("sender", 2)].Address}
		next, err = d.Proposed(me, terms, md)
		if err == nil {
			zz.Assert("proposal_only_from_its_leader", md.Address == terms.Leader.Address)
			zz.Assert("receiver_is_part_of_the_proposal", roles[0] != 0)
		}
	} else {
		next, err = d.Proposing(me, terms)
		if err == nil {
			zz.Assert("only_leader_proposes", leader == 0)
		}
	}
	nodeCount := len(terms.Joining) + len(terms.Remaining)
	if err != nil {
		zz.Reach("rejected")
		return
	}
	zz.Assert("accepted_proposal_is_a_legal_transition", zzIsLegal(from, next.State))
	zz.Assert("accepted_epoch_not_stale", terms.Epoch >= curEpoch && terms.Epoch >= 1)
	if from == Complete {
		zz.Assert("accepted_epoch_advances_after_complete", terms.Epoch == curEpoch+1)
	}
	zz.Assert("accepted_threshold_at_least_minimum", int(terms.Threshold) >= dkg.MinimumT(nodeCount))
	zz.Assert("accepted_threshold_at_most_node_count", int(terms.Threshold) <= nodeCount)
	zz.Assert("accepted_timeout_in_future", terms.Timeout.AsTime().After(now.Add(-time.Minute)))
	if terms.Epoch == 1 {
		zz.Assert("first_epoch_only_joiners", len(terms.Remaining) == 0 && len(terms.Leaving) == 0)
		zz.Assert("first_epoch_no_seed", len(terms.GenesisSeed) == 0)
	} else {
		zz.Assert("reshare_has_remainers", len(terms.Remaining) > 0)
		zz.Assert("reshare_leader_remains", listed(terms.Remaining, leader) && !listed(terms.Leaving, leader))
	}
	if hasGroup && from != Left && terms.Epoch > 1 {
		// an existing member: the proposal must keep genesis parameters and account for every current member
		zz.Assert("genesis_time_unchanged", terms.GenesisTime.AsTime().Unix() == 1700000000)
		zz.Assert("genesis_seed_unchanged", bytes.Equal(terms.GenesisSeed, []byte("seed")))
		for i := 0; i < 3; i++ {
			zz.Assert("current_members_remain_or_leave", listed(terms.Remaining, i) || listed(terms.Leaving, i))
		}
		zz.Assert("outsiders_only_join", !listed(terms.Remaining, 3) && !listed(terms.Leaving, 3))
		zz.Assert("enough_remainers_for_old_threshold", len(terms.Remaining) >= 2)
	}
	zz.Assert("stored_epoch_never_decreases", next.Epoch >= curEpoch)
	_ = zzfake.Logger
}
