package dkg

import (
	"bytes"
	"time"

	"go.uber.org/zap/zapcore"

	"github.com/drand/drand/v2/common/key"
	"github.com/drand/drand/v2/common/log"
	"github.com/drand/drand/v2/internal/zzfake"
	zz "github.com/drand/drand/v2/internal/zzverif"
	"github.com/drand/kyber/share"
	kdkg "github.com/drand/kyber/share/dkg"
)

func init() { zz.Register("ZZ_C15_dkgStoreLogs", ZZ_C15_dkgStoreLogs) }

// ZZ_C15_dkgStoreLogs: the key-generation database holds the share of every finished epoch. Whatever the store
// logs while reading its records -- including records it cannot restore (unknown scheme after a downgrade,
// damaged group data) -- must not contain the share. Under the engine every logger call records its arguments;
// natively the store's logger writes to a buffer that is scanned for the secret.
func ZZ_C15_dkgStoreLogs() {
	w := zzNewWorld(3)
	bolt, err := NewDKGStore(zz.TempDir("c15store"))
	if err != nil {
		panic(err)
	}
	var buf bytes.Buffer
	bolt.log = log.New(zapcore.AddSync(&buf), log.DebugLevel, true)
	g, ep := w.group(3, 2, 1700000000, []byte("seed"))
	sv := w.sch.KeyGroup.Scalar().SetBytes(zz.SecretBytes("share", w.sch.KeyGroup.ScalarLen()))
	sh := &key.Share{DistKeyShare: kdkg.DistKeyShare{Commits: ep.Commits, Share: &share.PriShare{I: 0, V: sv}}, Scheme: w.sch}
	d := &DBState{BeaconID: zzBeacon, Epoch: 1, State: Complete, Threshold: 2, Timeout: time.Unix(1700000000, 0), SchemeID: w.sch.Name,
		GenesisTime: time.Unix(1700000000, 0), GenesisSeed: []byte("seed"), BeaconPeriod: 30 * time.Second, CatchupPeriod: 15 * time.Second,
		Leader: w.parts[1], Joining: w.parts[:3], Acceptors: w.parts[:3], FinalGroup: g, KeyShare: sh}
	rec := zz.Choose("record", 3)
	switch rec {
	case 1:
		d.SchemeID = "zz-scheme-of-a-newer-release" // a record this binary cannot restore
	case 2:
		g.Threshold = 9 // damaged group data: rejected by the group decoder
	}
	zz.Assert("record_is_stored", bolt.SaveFinished(zzBeacon, d) == nil)
	_, ferr := bolt.GetFinished(zzBeacon)
	_, cerr := bolt.GetCurrent(zzBeacon)
	if rec != 0 {
		zz.Assert("unrestorable_record_is_refused", ferr != nil && cerr != nil)
	} else {
		zz.Assert("restorable_record_is_read_back", ferr == nil && cerr == nil)
	}
	zz.Observe("store_error_finished", ferr)
	zz.Observe("store_error_current", cerr)
	zz.Assert("nothing_secret_reaches_the_logger", zz.LogTextIsClean(buf.String()))
	_ = bolt.Close()
	_ = zzfake.Logger
}
