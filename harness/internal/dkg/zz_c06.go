package dkg

import (
	"bytes"
	"context"
	"sync"
	"time"

	"google.golang.org/grpc"

	"github.com/drand/drand/v2/common/key"
	"github.com/drand/drand/v2/internal/net"
	"github.com/drand/drand/v2/internal/util"
	"github.com/drand/drand/v2/internal/zzfake"
	zz "github.com/drand/drand/v2/internal/zzverif"
	drand "github.com/drand/drand/v2/protobuf/dkg"
	"github.com/drand/kyber/share/dkg"
)

func init() { zz.Register("ZZ_C06_groupAgreement", ZZ_C06_groupAgreement) }

var zzPerms3 = [][]int{{0, 1, 2}, {0, 2, 1}, {1, 0, 2}, {1, 2, 0}, {2, 0, 1}, {2, 1, 0}}

// ZZ_C06_groupAgreement: the drand side of "a completed DKG leaves all nodes with one group".
// Two nodes (0 and 1) hold the same signed terms but list the participants in different (symbolic) orders.
// Both run the real setupDKG and the real executeAndFinishDKG (startDKGExecution, asGroup, Complete, store) with
// the kyber protocol replaced by ONE ideal outcome (same qualified set and public polynomial for both, each its
// own share; see zz_ideal_dkg.go). Then:
//   - both hand the protocol the same participant -> index assignment (canonical order), whatever the listing;
//   - both end with the same group description (members, indices, threshold, scheme, period, genesis time and
//     seed, transition time, public key, hash) and a share at their own index under that group's public key;
//   - this must not depend on WHEN each node completes (the second node may finish one beacon period later).
//
// Not decided here (outside the engine's reach, see DESIGN): that kyber's protocol produces such an outcome.
func ZZ_C06_groupAgreement() {
	w := zzNewWorld(4)
	// which of the four keys belongs to the joiner (identity 3) is symbolic: its place in the canonical (by key)
	// order relative to the remaining members matters
	if rot := zz.Choose("world.rotation", 4); rot > 0 {
		w.pairs = append(append([]*key.Pair{}, w.pairs[rot:]...), w.pairs[:rot]...)
		w.parts = append(append([]*drand.Participant{}, w.parts[rot:]...), w.parts[:rot]...)
	}
	now := time.Now()
	period := time.Duration(zz.Param("period_s", 2)) * time.Second
	hasPrev := zz.Param("first_epoch", 0) == 0
	seed := []byte(nil)
	var fin *DBState
	finEpoch := uint32(0)
	if hasPrev {
		finEpoch = 1
		seed = []byte("seed")
		g1, ep1 := w.group(3, 2, 1700000000, seed)
		g1.Period = period
		fin = &DBState{BeaconID: zzBeacon, Epoch: 1, State: Complete, Threshold: 2, Timeout: now.Add(-time.Hour), SchemeID: w.sch.Name,
			GenesisTime: time.Unix(1700000000, 0), GenesisSeed: seed, BeaconPeriod: period, CatchupPeriod: period / 2,
			Leader: w.parts[1], Joining: w.parts[:3], Acceptors: w.parts[:3], FinalGroup: g1}
		_ = ep1
	}
	withJoiner := hasPrev && zz.Bool("attempt.with_joiner")
	thr := uint32(2)
	if withJoiner {
		thr = 3
	}
	type node struct {
		me   int
		st   *BoltStore
		p    *Process
		conf *dkg.Config
	}
	mk := func(me int, perm []int) *node {
		bolt, err := NewDKGStore(zz.TempDir("c06"))
		if err != nil {
			panic(err)
		}
		if hasPrev {
			f := *fin
			_, ep1 := w.group(3, 2, 1700000000, seed)
			f.KeyShare = ep1.Share(w.sch, me)
			if err := bolt.SaveFinished(zzBeacon, &f); err != nil {
				panic(err)
			}
		}
		members := []*drand.Participant{w.parts[perm[0]], w.parts[perm[1]], w.parts[perm[2]]}
		cur := &DBState{BeaconID: zzBeacon, Epoch: finEpoch + 1, State: Executing, Threshold: thr, Timeout: now.Add(time.Hour), SchemeID: w.sch.Name,
			GenesisTime: time.Unix(1700000000, 0), GenesisSeed: seed, BeaconPeriod: period, CatchupPeriod: period / 2, Leader: w.parts[1]}
		if hasPrev {
			cur.Remaining = members
			if withJoiner {
				cur.Joining = []*drand.Participant{w.parts[3]}
			}
		} else {
			cur.Joining = members
		}
		if err := bolt.SaveCurrent(zzBeacon, cur); err != nil {
			panic(err)
		}
		p := NewDKGProcess(bolt, &zzIdent{w.pairs[me]}, util.NewFanOutChan[SharingOutput](), &zzClient{}, nil,
			Config{Timeout: time.Hour, TimeBetweenDKGPhases: 0, KickoffGracePeriod: time.Hour}, zzfake.Logger())
		conf, err := p.setupDKG(context.Background(), zzBeacon)
		if err != nil {
			panic(err)
		}
		return &node{me, bolt, p, conf}
	}
	a := mk(0, zzPerms3[zz.Choose("listing.node_a", len(zzPerms3))])
	b := mk(1, zzPerms3[zz.Choose("listing.node_b", len(zzPerms3))])

	// (1) the same participant -> index assignment on both nodes
	zz.Assert("same_participant_count_for_the_protocol", len(a.conf.NewNodes) == len(b.conf.NewNodes))
	n := len(a.conf.NewNodes)
	for i := 0; i < n && i < len(b.conf.NewNodes); i++ {
		zz.Assert("same_index_assignment_whatever_the_listing_order", a.conf.NewNodes[i].Index == b.conf.NewNodes[i].Index && a.conf.NewNodes[i].Public.Equal(b.conf.NewNodes[i].Public))
	}
	zz.Assert("same_threshold_and_nonce_for_the_protocol", a.conf.Threshold == b.conf.Threshold && bytes.Equal(a.conf.Nonce, b.conf.Nonce))

	// (2) one ideal outcome for both
	ep2 := zzfake.Deal(w.sch, n, int(thr), "dkg-secret", "c06-next-epoch")
	dropped := -1
	if zz.Bool("outcome.one_node_disqualified") {
		dropped = 2 // a canonical index that is neither node 0's nor node 1's ... checked below
	}
	indexOf := func(c *dkg.Config, me int) int {
		for i, nd := range c.NewNodes {
			if nd.Public.Equal(w.pairs[me].Public.Key) {
				return i
			}
		}
		return -1
	}
	ia, ib := indexOf(a.conf, 0), indexOf(b.conf, 1)
	zz.Assert("each_node_finds_itself_among_the_participants", ia >= 0 && ib >= 0)
	if dropped >= 0 {
		for dropped == ia || dropped == ib {
			dropped = (dropped + 1) % n
		}
	}
	run := func(x *node, idx int) {
		zzProtocolOutcome = func(c *dkg.Config) dkg.OptionResult {
			var qual []dkg.Node
			for i, nd := range c.NewNodes {
				if i != dropped {
					qual = append(qual, nd)
				}
			}
			return dkg.OptionResult{Result: &dkg.Result{QUAL: qual, Key: &dkg.DistKeyShare{Commits: ep2.Commits, Share: ep2.Shares[idx]}}}
		}
		err := x.p.executeAndFinishDKG(context.Background(), zzBeacon, x.conf)
		zz.Assert("both_nodes_complete", err == nil)
	}
	run(a, ia)
	if hasPrev && zz.Bool("second_node_completes_one_period_later") {
		zz.Tag("round_boundary_between_completions")
		time.Sleep(period)
	}
	run(b, ib)
	zz.Quiesce()
	fa, _ := a.st.GetFinished(zzBeacon)
	fb, _ := b.st.GetFinished(zzBeacon)
	zz.Assert("both_record_the_completed_epoch", fa != nil && fb != nil && fa.State == Complete && fb.State == Complete && fa.Epoch == finEpoch+1 && fb.Epoch == finEpoch+1 &&
		fa.FinalGroup != nil && fb.FinalGroup != nil && fa.KeyShare != nil && fb.KeyShare != nil)
	if fa == nil || fb == nil || fa.FinalGroup == nil || fb.FinalGroup == nil || fa.KeyShare == nil || fb.KeyShare == nil {
		return
	}
	ga, gb := fa.FinalGroup, fb.FinalGroup
	zz.Assert("same_threshold", ga.Threshold == gb.Threshold && ga.Threshold == int(thr))
	zz.Assert("same_scheme_period_catchup_id", ga.Scheme.Name == gb.Scheme.Name && ga.Period == gb.Period && ga.CatchupPeriod == gb.CatchupPeriod && ga.ID == gb.ID)
	zz.Assert("same_genesis_time_and_seed", ga.GenesisTime == gb.GenesisTime && bytes.Equal(ga.GenesisSeed, gb.GenesisSeed) && len(ga.GenesisSeed) > 0)
	zz.Assert("same_public_key", ga.PublicKey != nil && gb.PublicKey != nil && ga.PublicKey.Equal(gb.PublicKey))
	zz.Assert("same_member_count", len(ga.Nodes) == len(gb.Nodes))
	find := func(g *key.Group, addr string) *key.Node {
		for _, nd := range g.Nodes {
			if nd.Addr == addr {
				return nd
			}
		}
		return nil
	}
	for _, na := range ga.Nodes {
		nb := find(gb, na.Addr)
		zz.Assert("same_members_with_the_same_indices_and_keys", nb != nil && nb.Index == na.Index && nb.Key.Equal(na.Key))
	}
	zz.Assert("same_transition_time", ga.TransitionTime == gb.TransitionTime)
	zz.Assert("same_group_hash", bytes.Equal(ga.Hash(), gb.Hash()))
	// each node's share sits at its own index of the agreed group, under the agreed public key
	for _, x := range []struct {
		f  *DBState
		me int
	}{{fa, 0}, {fb, 1}} {
		nd := find(x.f.FinalGroup, w.parts[x.me].Address)
		zz.Assert("own_share_is_at_the_nodes_own_index", nd != nil && uint32(x.f.KeyShare.Share.I) == nd.Index)
		zz.Assert("own_share_commits_to_the_group_public_key", x.f.KeyShare.Public().Equal(x.f.FinalGroup.PublicKey))
	}
	a.p.Close()
	b.p.Close()
}

func init() { zz.Register("ZZ_C06_echoBroadcast", ZZ_C06_echoBroadcast) }

// zzEchoClient records every protocol bundle this node sends out.
type zzEchoClient struct {
	zzClient
	mu   sync.Mutex
	sent []zzEchoSend
	// a slow peer: calls to slowAddr do not return before gate is closed
	slowAddr string
	gate     chan struct{}
}

func (c *zzEchoClient) BroadcastDKG(_ context.Context, p net.Peer, packet *drand.DKGPacket, _ ...grpc.CallOption) (*drand.EmptyDKGResponse, error) {
	if c.gate != nil && p.Address() == c.slowAddr {
		<-c.gate
	}
	c.mu.Lock()
	c.sent = append(c.sent, zzEchoSend{p.Address(), packet})
	c.mu.Unlock()
	return &drand.EmptyDKGResponse{}, nil
}

func (c *zzEchoClient) nsent() int {
	c.mu.Lock()
	defer c.mu.Unlock()
	return len(c.sent)
}

type zzEchoSend struct {
	to     string
	packet *drand.DKGPacket
}

// ZZ_C06_echoBroadcast: the board every node runs the protocol over. k protocol bundles reach the node's
// BroadcastDKG endpoint during an execution: genuine response bundles of other members, repeats of them,
// bundles signed with the wrong key, bundles naming an unknown index. Every NEW genuine bundle is handed to
// the protocol exactly once and re-sent exactly once to every other participant (so all nodes see the same
// bundles); repeats, forgeries and unknown senders are neither handed over nor re-sent.
func ZZ_C06_echoBroadcast() {
	w := zzNewWorld(3)
	now := time.Now()
	bolt, err := NewDKGStore(zz.TempDir("c06echo"))
	if err != nil {
		panic(err)
	}
	cur := &DBState{BeaconID: zzBeacon, Epoch: 1, State: Executing, Threshold: 2, Timeout: now.Add(time.Hour), SchemeID: w.sch.Name,
		GenesisTime: time.Unix(1700000000, 0), BeaconPeriod: 30 * time.Second, CatchupPeriod: 15 * time.Second, Leader: w.parts[1], Joining: w.parts[:3]}
	if err := bolt.SaveCurrent(zzBeacon, cur); err != nil {
		panic(err)
	}
	cl := &zzEchoClient{}
	// one of the other participants may be slow to take what is sent to it: the echo to it queues up meanwhile
	slow := zz.Bool("one_peer_is_slow")
	if slow {
		cl.slowAddr, cl.gate = w.parts[2].Address, make(chan struct{})
	}
	p := NewDKGProcess(bolt, &zzIdent{w.pairs[0]}, util.NewFanOutChan[SharingOutput](), cl, nil,
		Config{Timeout: time.Hour, TimeBetweenDKGPhases: 0, KickoffGracePeriod: time.Hour}, zzfake.Logger())
	ctx := context.Background()
	conf, err := p.setupDKG(ctx, zzBeacon)
	if err != nil {
		panic(err)
	}
	board := p.Executions[zzBeacon].(*echoBroadcast)
	// canonical indices of the three members
	idx := make([]uint32, 3)
	for m := 0; m < 3; m++ {
		for i, nd := range conf.NewNodes {
			if nd.Public.Equal(w.pairs[m].Public.Key) {
				idx[m] = uint32(i)
			}
		}
	}
	mkBundle := func(member int, status bool, signer int, shareIndex uint32) *drand.DKGPacket {
		b := &dkg.ResponseBundle{ShareIndex: shareIndex, Responses: []dkg.Response{{DealerIndex: idx[0], Status: status}}, SessionID: conf.Nonce}
		sig, err := conf.Auth.Sign(w.pairs[signer].Key, b.Hash())
		if err != nil {
			panic(err)
		}
		b.Signature = sig
		return &drand.DKGPacket{Dkg: respToProto(b, zzBeacon)}
	}
	k := zz.Param("deliveries", 3)
	type seenKey struct {
		member int
		status bool
	}
	genuine := map[seenKey]bool{}
	handed := 0
	for i := 0; i < k; i++ {
		var pkt *drand.DKGPacket
		tm := zz.Choose("delivery", 6)
		fresh := false
		switch tm {
		case 0, 1, 2, 3: // genuine bundle of member 1 or 2, complaint or approval
			kk := seenKey{1 + tm/2, tm%2 == 0}
			pkt = mkBundle(kk.member, kk.status, kk.member, idx[kk.member])
			fresh = !genuine[kk]
			genuine[kk] = true
		case 4: // claims member 1's index, signed by member 2
			pkt = mkBundle(1, true, 2, idx[1])
		case 5: // an index nobody holds
			pkt = mkBundle(1, true, 1, 7)
		}
		nsent, napp := cl.nsent(), len(board.respCh)
		_, err := p.BroadcastDKG(ctx, pkt)
		zz.Quiesce()
		dsent, dapp := cl.nsent()-nsent, len(board.respCh)-napp
		if fresh {
			zz.Assert("new_genuine_bundle_is_accepted", err == nil)
			zz.Assert("new_genuine_bundle_reaches_the_protocol_once", dapp == 1)
			if slow {
				zz.Assert("new_genuine_bundle_is_echoed_at_once_to_the_peer_that_is_not_slow", dsent == 1 && cl.sent[nsent].to == w.parts[1].Address)
			} else {
				zz.Assert("new_genuine_bundle_is_echoed_once_to_every_other_participant", dsent == 2 && cl.sent[nsent].to != cl.sent[nsent+1].to &&
					cl.sent[nsent].to != w.parts[0].Address && cl.sent[nsent+1].to != w.parts[0].Address)
			}
			handed++
		} else {
			zz.Assert("repeat_or_forgery_never_reaches_the_protocol", dapp == 0)
			zz.Assert("repeat_or_forgery_is_never_echoed", dsent == 0)
			// (a forgery whose content equals a bundle already seen is dropped as a repeat before its signature is looked at)
			if tm == 5 || (tm == 4 && !genuine[seenKey{1, true}]) {
				zz.Assert("forgery_is_refused", err != nil)
			}
		}
	}
	zz.Assert("protocol_received_each_genuine_bundle_once", len(board.respCh) == handed)
	if slow {
		// the slow peer catches up: everything echoed to the other peer reaches it too, once, in the same order
		close(cl.gate)
		zz.Quiesce()
		var fast, late []*drand.DKGPacket
		for _, s := range cl.sent {
			if s.to == w.parts[1].Address {
				fast = append(fast, s.packet)
			} else {
				late = append(late, s.packet)
			}
		}
		zz.Assert("slow_peer_receives_every_echo", len(fast) == handed && len(late) == handed)
		for i := range late {
			zz.Assert("slow_peer_receives_the_echoes_in_order", i < len(fast) && late[i] == fast[i])
		}
	}
	p.Close()
}
