package zzfake

import (
	"context"
	"errors"
	"sync"
	"time"

	clock "github.com/jonboulle/clockwork"
	"google.golang.org/grpc"

	"github.com/drand/drand/v2/common/log"
	"github.com/drand/drand/v2/internal/net"
	"github.com/drand/drand/v2/protobuf/drand"
)

// Logger: a real (error-level, discarded) logger natively; the engine substitutes a recording no-op.
func Logger() log.Logger { return log.New(nil, log.ErrorLevel, false) }

// Clock is a manually driven clockwork.Clock. Now() never moves by itself; Sleep/After/timers
// are released by Advance. Plain Go: runs identically natively and under the engine.
type Clock struct {
	mu      sync.Mutex
	now     time.Time
	waiters []*waiter
	// OnSleep, when set, is called (without the lock) when a goroutine goes to sleep: harnesses use
	// it to advance the clock so that sleepers do not block forever.
	AutoAdvance bool
}

type waiter struct {
	at     time.Time
	ch     chan time.Time
	period time.Duration // >0: ticker
	fn     func()
	dead   bool
}

func NewClock(unix int64) *Clock { return &Clock{now: time.Unix(unix, 0)} }

// NewClockAt starts the clock at an instant with sub-second resolution.
func NewClockAt(t time.Time) *Clock { return &Clock{now: t} }

func (c *Clock) Now() time.Time {
	c.mu.Lock()
	defer c.mu.Unlock()
	return c.now
}
func (c *Clock) Since(t time.Time) time.Duration { return c.Now().Sub(t) }
func (c *Clock) Until(t time.Time) time.Duration { return t.Sub(c.Now()) }

func (c *Clock) add(d time.Duration, period time.Duration, fn func()) *waiter {
	c.mu.Lock()
	w := &waiter{at: c.now.Add(d), ch: make(chan time.Time, 1), period: period, fn: fn}
	c.waiters = append(c.waiters, w)
	auto := c.AutoAdvance
	c.mu.Unlock()
	if d <= 0 || auto {
		c.Advance(d)
	}
	return w
}

func (c *Clock) After(d time.Duration) <-chan time.Time { return c.add(d, 0, nil).ch }
func (c *Clock) Sleep(d time.Duration) {
	if d <= 0 {
		return
	}
	<-c.add(d, 0, nil).ch
}

// Set moves the clock to an absolute instant (never backwards) and fires what is due.
func (c *Clock) Set(unix int64) {
	c.mu.Lock()
	t := time.Unix(unix, 0)
	d := t.Sub(c.now)
	c.mu.Unlock()
	if d > 0 {
		c.Advance(d)
	}
}

// Advance moves the clock forward and fires every waiter that became due, in order.
func (c *Clock) Advance(d time.Duration) {
	c.mu.Lock()
	if d > 0 {
		c.now = c.now.Add(d)
	}
	now := c.now
	var fns []func()
	for _, w := range c.waiters {
		if w.dead {
			continue
		}
		for !w.at.After(now) {
			if w.fn != nil {
				fns = append(fns, w.fn)
			} else {
				select {
				case w.ch <- w.at:
				default:
				}
			}
			if w.period > 0 {
				w.at = w.at.Add(w.period)
			} else {
				w.dead = true
				break
			}
		}
	}
	c.mu.Unlock()
	for _, f := range fns {
		f()
	}
}

type tick struct {
	c *Clock
	w *waiter
}

func (t *tick) Chan() <-chan time.Time { return t.w.ch }
func (t *tick) Stop() bool {
	t.c.mu.Lock()
	defer t.c.mu.Unlock()
	was := !t.w.dead
	t.w.dead = true
	return was
}
func (t *tick) Reset(d time.Duration) bool {
	t.c.mu.Lock()
	defer t.c.mu.Unlock()
	was := !t.w.dead
	t.w.dead = false
	t.w.at = t.c.now.Add(d)
	return was
}

type ticker struct{ tick }

func (t *ticker) Stop()                 { t.tick.Stop() }
func (t *ticker) Reset(d time.Duration) { t.tick.Reset(d); t.w.period = d }

func (c *Clock) NewTicker(d time.Duration) clock.Ticker { return &ticker{tick{c, c.add(d, d, nil)}} }
func (c *Clock) NewTimer(d time.Duration) clock.Timer   { return &tick{c, c.add(d, 0, nil)} }
func (c *Clock) AfterFunc(d time.Duration, f func()) clock.Timer {
	return &tick{c, c.add(d, 0, f)}
}

// Sent is one outgoing partial recorded by the fake protocol client.
type Sent struct {
	To     string
	Packet *drand.PartialBeaconPacket
	AtUnix int64
}

// Client is a recording net.ProtocolClient.
type Client struct {
	mu       sync.Mutex
	Clock    *Clock
	Partials []Sent
	// SyncFn answers SyncChain requests (nil => error).
	SyncFn func(ctx context.Context, p net.Peer, in *drand.SyncRequest) (chan *drand.BeaconPacket, error)
	Fail   bool
}

var ErrFake = errors.New("zzfake: peer unreachable")

func (c *Client) GetIdentity(context.Context, net.Peer, *drand.IdentityRequest, ...net.CallOption) (*drand.IdentityResponse, error) {
	return nil, ErrFake
}
func (c *Client) SyncChain(ctx context.Context, p net.Peer, in *drand.SyncRequest, _ ...net.CallOption) (chan *drand.BeaconPacket, error) {
	if c.SyncFn == nil {
		return nil, ErrFake
	}
	return c.SyncFn(ctx, p, in)
}
func (c *Client) PartialBeacon(_ context.Context, p net.Peer, in *drand.PartialBeaconPacket, _ ...net.CallOption) error {
	c.mu.Lock()
	defer c.mu.Unlock()
	s := Sent{To: p.Address(), Packet: in}
	if c.Clock != nil {
		s.AtUnix = c.Clock.Now().Unix()
	}
	c.Partials = append(c.Partials, s)
	if c.Fail {
		return ErrFake
	}
	return nil
}
func (c *Client) Status(context.Context, net.Peer, *drand.StatusRequest, ...grpc.CallOption) (*drand.StatusResponse, error) {
	return nil, ErrFake
}
func (c *Client) Check(context.Context, net.Peer) error { return nil }
