// Package zzfake builds key material and environment objects for the verification
// harnesses. It is plain Go on top of the kyber / drand APIs: natively it runs the
// REAL cryptography (deterministically seeded); under the symbolic engine the same
// calls hit the engine's ideal-crypto model at the kyber boundary.
package zzfake

import (
	"crypto/cipher"
	"crypto/sha256"
	"encoding/binary"
	"time"

	"github.com/drand/drand/v2/common/key"
	"github.com/drand/drand/v2/crypto"
	"github.com/drand/kyber"
	"github.com/drand/kyber/share"
	"github.com/drand/kyber/share/dkg"
)

type seedStream struct {
	seed []byte
	ctr  uint64
	buf  []byte
}

// Stream is a deterministic cipher.Stream derived from seed (intercepted by the engine).
func Stream(seed string) cipher.Stream { return &seedStream{seed: []byte(seed)} }

func (s *seedStream) XORKeyStream(dst, src []byte) {
	for i := range src {
		if len(s.buf) == 0 {
			var c [8]byte
			binary.BigEndian.PutUint64(c[:], s.ctr)
			s.ctr++
			h := sha256.Sum256(append(append([]byte{}, s.seed...), c[:]...))
			s.buf = h[:]
		}
		dst[i] = src[i] ^ s.buf[0]
		s.buf = s.buf[1:]
	}
}

// PointFromBytes maps a byte string to a valid public-key point, injectively (natively: a point
// picked from the stream seeded by b; engine: an injective uninterpreted function of b).
func PointFromBytes(sch *crypto.Scheme, b []byte) kyber.Point {
	return sch.KeyGroup.Point().Pick(Stream("point:" + string(b)))
}

// Scheme returns the named drand scheme.
func Scheme(name string) *crypto.Scheme {
	s, err := crypto.SchemeFromName(name)
	if err != nil {
		panic(err)
	}
	return s
}

// KeyPair is a deterministic, self-signed long-term key pair.
func KeyPair(sch *crypto.Scheme, addr, seed string) *key.Pair {
	k := sch.KeyGroup.Scalar().Pick(Stream(seed))
	pub := sch.KeyGroup.Point().Mul(k, nil)
	p := &key.Pair{Key: k, Public: &key.Identity{Key: pub, Addr: addr, Scheme: sch}}
	if err := p.SelfSign(); err != nil {
		panic(err)
	}
	return p
}

// Epoch is the output of one (ideal) distributed key generation.
type Epoch struct {
	Commits []kyber.Point
	Shares  []*share.PriShare
	Secret  kyber.Scalar // the group secret (never known to anyone in a real network; used to make honest beacons)
}

// Deal creates a sharing polynomial of threshold t with n shares. Two epochs dealt with the same
// secretSeed share the group public key (Commits[0]) -- that is what a resharing preserves.
func Deal(sch *crypto.Scheme, n, t int, secretSeed, polySeed string) *Epoch {
	secret := sch.KeyGroup.Scalar().Pick(Stream(secretSeed))
	poly := share.NewPriPoly(sch.KeyGroup, t, secret, Stream(polySeed))
	_, commits := poly.Commit(nil).Info()
	return &Epoch{Commits: commits, Shares: poly.Shares(n), Secret: secret}
}

// SignBeacon produces the (unique) group signature of a round, i.e. what an honest network outputs.
func SignBeacon(sch *crypto.Scheme, e *Epoch, round uint64, prev []byte) []byte {
	msg := sch.DigestBeacon(&beaconMsg{round, prev})
	sig, err := sch.AuthScheme.Sign(e.Secret, msg)
	if err != nil {
		panic(err)
	}
	return sig
}

type beaconMsg struct {
	round uint64
	prev  []byte
}

func (b *beaconMsg) GetRound() uint64              { return b.round }
func (b *beaconMsg) GetPreviousSignature() []byte { return b.prev }

// Share wraps share i of the epoch as drand's key.Share.
func (e *Epoch) Share(sch *crypto.Scheme, i int) *key.Share {
	return &key.Share{DistKeyShare: dkg.DistKeyShare{Commits: e.Commits, Share: e.Shares[i]}, Scheme: sch}
}

// Group assembles a group description: node i gets index i.
func Group(sch *crypto.Scheme, pairs []*key.Pair, t int, period time.Duration, genesis int64, e *Epoch, id string) *key.Group {
	nodes := make([]*key.Node, len(pairs))
	for i, p := range pairs {
		nodes[i] = &key.Node{Identity: p.Public, Index: uint32(i)}
	}
	g := &key.Group{Threshold: t, Period: period, Scheme: sch, ID: id, CatchupPeriod: period / 2, Nodes: nodes, GenesisTime: genesis}
	if e != nil {
		g.PublicKey = &key.DistPublic{Coefficients: e.Commits}
	}
	return g
}
