package memdb

import (
	"context"
	"errors"
	"fmt"

	"github.com/drand/drand/v2/common"
	"github.com/drand/drand/v2/internal/chain"
	chainerrors "github.com/drand/drand/v2/internal/chain/errors"
	zz "github.com/drand/drand/v2/internal/zzverif"
)

func init() { zz.Register("ZZ_C18_memdbOps", ZZ_C18_memdbOps) }

// reference model: a sorted list of (round, signature byte) pairs
type zzEntry struct {
	round uint64
	sig   byte
	prev  byte
}

type zzModel struct {
	e   []zzEntry
	cap int
}

func (m *zzModel) find(r uint64) int {
	for i := range m.e {
		if m.e[i].round == r {
			return i
		}
	}
	return -1
}

func (m *zzModel) put(r uint64, sig, prev byte) {
	if m.find(r) >= 0 {
		return // the ring keeps the old value
	}
	pos := len(m.e)
	for i := range m.e {
		if r < m.e[i].round {
			pos = i
			break
		}
	}
	m.e = append(m.e, zzEntry{})
	copy(m.e[pos+1:], m.e[pos:])
	m.e[pos] = zzEntry{r, sig, prev}
	if len(m.e) > m.cap {
		m.e = m.e[len(m.e)-m.cap:]
	}
}

func (m *zzModel) del(r uint64) {
	if i := m.find(r); i >= 0 {
		m.e = append(m.e[:i], m.e[i+1:]...)
	}
}

func zzSame(tag string, b *common.Beacon, err error, m *zzModel, idx int) {
	if idx < 0 || idx >= len(m.e) {
		zz.Assert(tag+"_absent_reports_no_beacon", b == nil && errors.Is(err, chainerrors.ErrNoBeaconStored))
		return
	}
	zz.Assert(tag+"_present_no_error", err == nil && b != nil)
	zz.Assert(tag+"_round_label", b.Round == m.e[idx].round)
	zz.Assert(tag+"_data_of_that_round", len(b.Signature) == 1 && b.Signature[0] == m.e[idx].sig && len(b.PreviousSig) == 1 && b.PreviousSig[0] == m.e[idx].prev)
}

// ZZ_C18_memdbOps: every operation sequence of length k over a small round window, from an
// initial content of `init` symbolic rounds, answers like the sorted-map model (ring semantics).
func ZZ_C18_memdbOps() {
	ctx := context.Background()
	k := zz.Param("ops", 3)
	win := uint64(zz.Param("window", 4))
	ninit := zz.Param("init", 0)
	capn := zz.Param("cap", 10)
	s := NewStore(capn)
	m := &zzModel{cap: capn}
	base := uint64(zz.Param("base", 0))
	below := uint64(zz.Param("below", 0)) // rounds below the pre-populated content are in the window too (late puts into a full ring)
	for i := 0; i < ninit; i++ {
		// pre-populated ring: distinct ascending concrete rounds with gaps, symbolic data
		r := base + uint64(2*i)
		sig, prev := zz.U8(fmt.Sprintf("init%d.sig", i)), zz.U8(fmt.Sprintf("init%d.prev", i))
		_ = s.Put(ctx, &common.Beacon{Round: r, Signature: []byte{sig}, PreviousSig: []byte{prev}})
		m.put(r, sig, prev)
	}
	for i := 0; i < k; i++ {
		op := zz.Choose(fmt.Sprintf("op%d", i), 7)
		r := zz.U64(fmt.Sprintf("r%d", i))
		zz.Assume(r+below >= base && r < base+win)
		switch op {
		case 0:
			sig, prev := zz.U8(fmt.Sprintf("sig%d", i)), zz.U8(fmt.Sprintf("prev%d", i))
			err := s.Put(ctx, &common.Beacon{Round: r, Signature: []byte{sig}, PreviousSig: []byte{prev}})
			zz.Assert("put_ok", err == nil)
			m.put(r, sig, prev)
		case 1:
			b, err := s.Get(ctx, r)
			zzSame("get", b, err, m, m.find(r))
		case 2:
			err := s.Del(ctx, r)
			zz.Assert("del_ok", err == nil)
			m.del(r)
		case 3:
			b, err := s.Last(ctx)
			zzSame("last", b, err, m, len(m.e)-1)
		case 4:
			n, err := s.Len(ctx)
			zz.Assert("len_matches", err == nil && n == len(m.e))
		case 5:
			// full ascending scan
			_ = s.Cursor(ctx, func(ctx context.Context, c chain.Cursor) error {
				b, err := c.First(ctx)
				zzSame("first", b, err, m, 0)
				for j := 1; j <= len(m.e); j++ {
					b, err = c.Next(ctx)
					zzSame("next", b, err, m, j)
				}
				b, err = c.Last(ctx)
				zzSame("cursor_last", b, err, m, len(m.e)-1)
				return nil
			})
		case 6:
			// seek then continue
			_ = s.Cursor(ctx, func(ctx context.Context, c chain.Cursor) error {
				b, err := c.Seek(ctx, r)
				idx := m.find(r)
				zzSame("seek", b, err, m, idx)
				if idx >= 0 {
					for j := idx + 1; j <= len(m.e); j++ {
						b, err = c.Next(ctx)
						zzSame("seek_next", b, err, m, j)
					}
				}
				return nil
			})
		}
	}
	// final state equals the model
	n, _ := s.Len(ctx)
	zz.Assert("final_len", n == len(m.e))
	for i := range m.e {
		b, err := s.Get(ctx, m.e[i].round)
		zzSame("final_get", b, err, m, i)
	}
}
