package boltdb

import (
	"context"
	"errors"
	"fmt"

	"github.com/drand/drand/v2/common"
	"github.com/drand/drand/v2/internal/chain"
	chainerrors "github.com/drand/drand/v2/internal/chain/errors"
	"github.com/drand/drand/v2/internal/zzfake"
	zz "github.com/drand/drand/v2/internal/zzverif"
)

func init() {
	zz.Register("ZZ_C18_boltOps", ZZ_C18_boltOps)
	zz.Register("ZZ_C13_beaconWriteCrash", ZZ_C13_beaconWriteCrash)
}

type zzEntry struct {
	round     uint64
	sig, prev byte
}

type zzModel struct{ e []zzEntry }

func (m *zzModel) find(r uint64) int {
	for i := range m.e {
		if m.e[i].round == r {
			return i
		}
	}
	return -1
}

func (m *zzModel) put(r uint64, sig, prev byte) {
	if i := m.find(r); i >= 0 {
		m.e[i] = zzEntry{r, sig, prev} // bolt replaces
		return
	}
	pos := len(m.e)
	for i := range m.e {
		if r < m.e[i].round {
			pos = i
			break
		}
	}
	m.e = append(m.e, zzEntry{})
	copy(m.e[pos+1:], m.e[pos:])
	m.e[pos] = zzEntry{r, sig, prev}
}

func (m *zzModel) del(r uint64) {
	if i := m.find(r); i >= 0 {
		m.e = append(m.e[:i], m.e[i+1:]...)
	}
}

// zzOpen opens the back-end under test: 0 trimmed (previous not required), 1 trimmed (previous required,
// i.e. chained schemes), 2 untrimmed.
func zzOpen(kind int) chain.Store {
	dir := zz.TempDir("bolt")
	l := zzfake.Logger()
	ctx := context.Background()
	switch kind {
	case 0:
		s, err := newTrimmedStore(ctx, l, dir)
		if err != nil {
			panic(err)
		}
		return s
	case 1:
		s, err := newTrimmedStore(chain.SetPreviousRequiredOnContext(ctx), l, dir)
		if err != nil {
			panic(err)
		}
		return s
	}
	s, err := NewBoltStore(IsATest(ctx), l, dir)
	if err != nil {
		panic(err)
	}
	return s
}

// zzCheck compares one read with the model. kind 1 reconstructs the previous signature from round-1.
func zzCheck(tag string, kind int, b *common.Beacon, err error, m *zzModel, idx int) {
	if idx < 0 || idx >= len(m.e) {
		zz.Assert(tag+"_absent_reports_no_beacon", b == nil || err != nil)
		return
	}
	w := m.e[idx]
	if kind == 1 && w.round > 0 {
		pi := m.find(w.round - 1)
		if pi < 0 {
			zz.Assert(tag+"_missing_previous_fails_the_read", err != nil)
			return
		}
		zz.Assert(tag+"_present_no_error", err == nil && b != nil)
		zz.Assert(tag+"_reconstructed_previous_is_sig_of_round_minus_one", len(b.PreviousSig) == 1 && b.PreviousSig[0] == m.e[pi].sig)
	} else {
		zz.Assert(tag+"_present_no_error", err == nil && b != nil)
	}
	zz.Assert(tag+"_round_label_is_the_key_of_the_data", b.Round == w.round)
	zz.Assert(tag+"_signature_of_that_round", len(b.Signature) == 1 && b.Signature[0] == w.sig)
	if kind == 2 {
		zz.Assert(tag+"_previous_as_stored", len(b.PreviousSig) == 1 && b.PreviousSig[0] == w.prev)
	}
}

// ZZ_C18_boltOps: operation sequences on the bolt back-ends against a sorted-map model.
func ZZ_C18_boltOps() {
	kind := zz.Param("backend", 0)
	k := zz.Param("ops", 3)
	win := uint64(zz.Param("window", 4))
	ctx := context.Background()
	s := zzOpen(kind)
	m := &zzModel{}
	// the store may start with a dense run of rounds 0..init-1 (so that short sequences reach states in which a
	// round has a stored predecessor: re-puts and deletions below the head, reads before and after them)
	for r := 0; r < zz.Param("init", 0); r++ {
		sig, prev := byte(0x50+r), byte(0x4f+r)
		if err := s.Put(ctx, &common.Beacon{Round: uint64(r), Signature: []byte{sig}, PreviousSig: []byte{prev}}); err != nil {
			panic(err)
		}
		m.put(uint64(r), sig, prev)
	}
	for i := 0; i < k; i++ {
		op := zz.Choose(fmt.Sprintf("op%d", i), 7)
		r := zz.U64(fmt.Sprintf("r%d", i))
		zz.Assume(r < win)
		switch op {
		case 0:
			sig, prev := zz.U8(fmt.Sprintf("sig%d", i)), zz.U8(fmt.Sprintf("prev%d", i))
			err := s.Put(ctx, &common.Beacon{Round: r, Signature: []byte{sig}, PreviousSig: []byte{prev}})
			zz.Assert("put_ok", err == nil)
			m.put(r, sig, prev)
		case 1:
			b, err := s.Get(ctx, r)
			zzCheck("get", kind, b, err, m, m.find(r))
		case 2:
			zz.Assert("del_ok", s.Del(ctx, r) == nil)
			m.del(r)
		case 3:
			b, err := s.Last(ctx)
			if len(m.e) == 0 {
				zz.Assert("last_on_empty_reports_no_beacon", errors.Is(err, chainerrors.ErrNoBeaconStored))
			} else {
				zzCheck("last", kind, b, err, m, len(m.e)-1)
			}
		case 4:
			n, err := s.Len(ctx)
			zz.Assert("len_matches", err == nil && n == len(m.e))
		case 5:
			_ = s.Cursor(ctx, func(ctx context.Context, c chain.Cursor) error {
				b, err := c.First(ctx)
				zzCheck("first", kind, b, err, m, 0)
				for j := 1; j <= len(m.e); j++ {
					b, err = c.Next(ctx)
					zzCheck("next", kind, b, err, m, j)
				}
				return nil
			})
		case 6:
			_ = s.Cursor(ctx, func(ctx context.Context, c chain.Cursor) error {
				b, err := c.Seek(ctx, r)
				idx := m.find(r)
				if idx >= 0 {
					zz.Tag("")
					zzCheck("seek_present", kind, b, err, m, idx)
				} else if err == nil && b != nil {
					// seeking an absent round may position on the next stored round, but the beacon returned must
					// then be that round's beacon, correctly labelled
					nx := -1
					for j := range m.e {
						if m.e[j].round > r {
							nx = j
							break
						}
					}
					zz.Tag("op=Seek,target_absent,later_present")
					zz.Assert("seek_absent_never_mislabels", nx >= 0 && b.Round == m.e[nx].round && len(b.Signature) == 1 && b.Signature[0] == m.e[nx].sig)
					zz.Tag("")
					if kind == 1 && nx >= 0 && b.Round == m.e[nx].round && b.Round > 0 {
						// the reconstructed previous signature belongs to the round BEFORE the returned one
						pi := m.find(b.Round - 1)
						zz.Assert("seek_absent_previous_is_of_the_returned_round", pi >= 0 && len(b.PreviousSig) == 1 && b.PreviousSig[0] == m.e[pi].sig)
					}
				}
				return nil
			})
		}
	}
	_ = s.Close()
}

// ZZ_C13_beaconWriteCrash: the process dies at any persistence point while beacons are being stored;
// what survives is a gap-free prefix containing every beacon whose Put had returned.
func ZZ_C13_beaconWriteCrash() {
	kind := zz.Param("backend", 0)
	n := zz.Param("beacons", 3)
	ctx := context.Background()
	dir := zz.TempDir("boltcrash")
	open := func() chain.Store {
		l := zzfake.Logger()
		if kind == 2 {
			s, err := NewBoltStore(IsATest(ctx), l, dir)
			if err != nil {
				panic(err)
			}
			return s
		}
		s, err := newTrimmedStore(ctx, l, dir)
		if err != nil {
			panic(err)
		}
		return s
	}
	s := open()
	returned := 0
	k := zz.Choose("crash_at", 2*n+4)
	zz.CrashAt(k)
	crashed := zz.RunUntilCrash(func() {
		for r := 0; r < n; r++ {
			if err := s.Put(ctx, &common.Beacon{Round: uint64(r), Signature: []byte{byte(0x40 + r)}}); err != nil {
				return
			}
			returned = r + 1
		}
	})
	if !crashed {
		_ = s.Close()
	}
	// restart
	s2 := open()
	cnt, err := s2.Len(ctx)
	zz.Assert("restart_opens", err == nil)
	zz.Assert("every_acknowledged_beacon_survives", cnt >= returned)
	zz.Assert("nothing_beyond_what_was_written", cnt <= n && cnt <= returned+1)
	for r := 0; r < cnt; r++ {
		b, gerr := s2.Get(ctx, uint64(r))
		zz.Assert("survivors_form_a_gap_free_prefix", gerr == nil && b != nil && b.Round == uint64(r) && len(b.Signature) == 1 && b.Signature[0] == byte(0x40+r))
	}
}
