package beacon

import (
	"context"
	"fmt"

	"github.com/drand/drand/v2/common"
	"github.com/drand/drand/v2/internal/chain/memdb"
	"github.com/drand/drand/v2/internal/zzfake"
	zz "github.com/drand/drand/v2/internal/zzverif"
	proto "github.com/drand/drand/v2/protobuf/drand"
)

func init() {
	zz.Register("ZZ_C12_stalledConsumer", ZZ_C12_stalledConsumer)
	zz.Register("ZZ_C12_streamLeavesOnError", ZZ_C12_streamLeavesOnError)
	zz.Register("ZZ_C12_partialCache", ZZ_C12_partialCache)
}

// ZZ_C12_stalledConsumer: a stream consumer that stopped reading (its callback never returns) while
// beacons keep being stored. Storing must not wait for it and other consumers must still be served.
func ZZ_C12_stalledConsumer() {
	ctx := context.Background()
	base := memdb.NewStore(2000)
	cbs := NewCallbackStore(zzfake.Logger(), base)
	gate := make(chan struct{}) // never signalled: the consumer is stalled for good
	got := 0
	cbs.AddCallback("stalled", func(*common.Beacon, bool) { <-gate })
	cbs.AddCallback("good", func(*common.Beacon, bool) { got++ })
	// number of beacons stored before the one under test: the real queue capacity is the interesting boundary
	qs := []int{0, 1, CallbackWorkerQueue - 1, CallbackWorkerQueue, CallbackWorkerQueue + 1}
	q := qs[zz.Choose("prior_beacons", len(qs))]
	for i := 1; i <= q; i++ {
		_ = cbs.Put(ctx, &common.Beacon{Round: uint64(i), Signature: []byte{1}})
		zz.Yield() // the healthy consumer keeps up with the writer
	}
	zz.Quiesce()
	if q >= CallbackWorkerQueue+1 {
		zz.Tag("queue=full") // 1 job held by the stalled worker + CallbackWorkerQueue queued
	}
	if q < CallbackWorkerQueue && zz.Bool("stalled_client_reconnects") {
		// the client whose stream is stalled opens a new stream: same callback id, the old worker is still
		// stuck inside its callback. Registering must not wait for it.
		zz.Tag("reconnect_while_stalled")
		cbs.AddCallback("stalled", func(*common.Beacon, bool) { <-gate })
		zz.Quiesce()
	}
	if q >= CallbackWorkerQueue+1 && zz.Bool("stalled_client_disconnects_meanwhile") {
		// the stalled client's stream is torn down (its callback removed) while the writer is busy with the next
		// beacon: whatever else happens, the node must not die of it
		go func() {
			zz.Quiesce()
			cbs.RemoveCallback("stalled")
		}()
	}
	err := cbs.Put(ctx, &common.Beacon{Round: uint64(q + 1), Signature: []byte{1}}) // must return
	zz.Quiesce()
	zz.Assert("put_succeeds", err == nil)
	zz.Assert("other_consumer_still_served", got == q+1)
	last, _ := cbs.Last(ctx)
	zz.Assert("beacon_is_stored", last != nil && last.Round == uint64(q+1))
}

// ZZ_C12_streamLeavesOnError: a stream whose Send fails, or whose client disconnects, removes its callback (and
// with it the per-stream queue and worker) and returns the error once: departed followers leave nothing behind.
func ZZ_C12_streamLeavesOnError() {
	bg := context.Background()
	base := memdb.NewStore(10)
	cbs := NewCallbackStore(zzfake.Logger(), base).(*callbackStore)
	for r := 0; r < 2; r++ {
		_ = cbs.Put(bg, &common.Beacon{Round: uint64(r), Signature: []byte{byte(r)}})
	}
	// the follower leaves either because a send to it fails, or because it disconnects (its stream's context ends)
	// at some point after its callback was attached
	disconnects := zz.Bool("follower_disconnects")
	ctx, cancel := context.WithCancel(zz.WithRemote(bg, "follower.example:1"))
	defer cancel()
	st := &zzStream{ctx: ctx}
	leaveAfter := 0
	if disconnects {
		leaveAfter = 2 + zz.Choose("disconnects_after_round", 3) // after round 2, 3 or 4 was stored
	} else {
		st.fail = 1 + zz.Choose("fail_at", 3) // fail the 1st..3rd send
	}
	var ret error
	done := false
	go func() {
		ret = SyncChain(zzfake.Logger(), cbs, &proto.SyncRequest{FromRound: 1, Metadata: &proto.Metadata{BeaconID: "default"}}, st)
		done = true
	}()
	zz.Quiesce()
	for r := 2; r < 5; r++ {
		_ = cbs.Put(bg, &common.Beacon{Round: uint64(r), Signature: []byte{byte(r)}})
		zz.Quiesce()
		if r == leaveAfter {
			cancel()
			zz.Quiesce()
		}
	}
	zz.Assert("stream_returned_with_error", done && ret != nil)
	if !disconnects {
		zz.Assert("sent_stops_at_failure", len(st.sent) == st.fail-1)
	}
	cbs.RLock()
	n := len(cbs.callbacks)
	j := len(cbs.newJob)
	cbs.RUnlock()
	zz.Assert("callback_removed", n == 0 && j == 0)
}

// ZZ_C12_partialCache: floods of partials by several signers over symbolic (round, previous) ids.
// An append by one signer never removes another signer's entries, the number of cached rounds per signer
// stays within the (scaled) cap, and a flush leaves nothing at or below the flushed round.
func ZZ_C12_partialCache() {
	sch := zzfake.Scheme(zzSchemeNames[zz.Param("scheme", 0)])
	c := newPartialCache(zzfake.Logger(), sch)
	k, signers, rounds := zz.Param("appends", 5), zz.Param("signers", 2), zz.Param("rounds", 4)
	plen := sch.SigGroup.PointLen()
	holds := func(idx int) int {
		n := 0
		for _, rc := range c.rounds {
			if _, ok := rc.sigs[idx]; ok {
				n++
			}
		}
		return n
	}
	for i := 0; i < k; i++ {
		pfx := fmt.Sprintf("op%d", i)
		if zz.Param("flushes", 1) == 1 && zz.Bool(pfx+".flush") {
			r := zz.U64(pfx + ".flush_round")
			zz.Assume(r < uint64(rounds))
			c.FlushRounds(r)
			for _, rc := range c.rounds {
				zz.Assert("flush_removes_rounds_at_or_below", rc.round > r)
			}
			continue
		}
		// signer, round and previous signature are symbolic: paths split only where the cache compares them
		sb := zz.U8(pfx + ".signer")
		zz.Assume(int(sb) < signers)
		s := int(sb)
		r := zz.U64(pfx + ".round")
		zz.Assume(r < uint64(rounds))
		pv := zz.U8(pfx + ".prev")
		zz.Assume(pv < 2)
		prev := []byte{pv}
		sig := make([]byte, plen+2)
		sig[1] = sb
		before := make([]int, signers)
		for y := 0; y < signers; y++ {
			before[y] = holds(y)
		}
		_ = c.Append(&proto.PartialBeaconPacket{Round: r, PreviousSignature: prev, PartialSig: sig})
		for y := 0; y < signers; y++ {
			if y != s {
				zz.Assert("flood_never_evicts_other_members", holds(y) == before[y])
			}
		}
		zz.Assert("cached_rounds_per_member_bounded", holds(s) <= MaxPartialsPerNode)
		zz.Assert("round_caches_bounded", len(c.rounds) <= signers*MaxPartialsPerNode)
	}
}
