package beacon

import (
	"bytes"

	"github.com/drand/drand/v2/common"
	zz "github.com/drand/drand/v2/internal/zzverif"
)

func init() { zz.Register("ZZ_C20_beaconMirrors", ZZ_C20_beaconMirrors) }

// ZZ_C20_beaconMirrors: a beacon with arbitrary byte strings survives the wire mirror (beaconToProto /
// protoToBeacon) and the JSON form used by the untrimmed store (Beacon.Marshal / Unmarshal with HexBytes),
// with nil and empty previous signatures treated alike.
func ZZ_C20_beaconMirrors() {
	b := &common.Beacon{Round: zz.U64("round"), Signature: zz.Bytes("sig", zz.Len("sig.len", 0, 3))}
	switch zz.Choose("prev", 3) {
	case 1:
		b.PreviousSig = []byte{}
	case 2:
		b.PreviousSig = zz.Bytes("prev", zz.Len("prev.len", 1, 3))
	}
	same := func(tag string, g *common.Beacon) {
		zz.Assert(tag+"_round", g.Round == b.Round)
		zz.Assert(tag+"_signature", bytes.Equal(g.Signature, b.Signature))
		zz.Assert(tag+"_previous_signature", bytes.Equal(g.PreviousSig, b.PreviousSig))
		zz.Assert(tag+"_equal_method", g.Equal(b))
		zz.Assert(tag+"_same_randomness", bytes.Equal(g.Randomness(), b.Randomness()))
	}
	same("wire", protoToBeacon(beaconToProto(b, "default")))
	data, err := b.Marshal()
	zz.Assert("json_encodes", err == nil)
	if err == nil {
		g := new(common.Beacon)
		zz.Assert("json_decodes", g.Unmarshal(data) == nil)
		same("json", g)
	}
}
