package beacon

import (
	"bytes"
	"context"
	"errors"

	"github.com/drand/drand/v2/common"
	"github.com/drand/drand/v2/internal/chain"
	"github.com/drand/drand/v2/internal/chain/memdb"
	"github.com/drand/drand/v2/internal/zzfake"
	zz "github.com/drand/drand/v2/internal/zzverif"
	proto "github.com/drand/drand/v2/protobuf/drand"
)

func init() {
	zz.Register("ZZ_C11_stream", ZZ_C11_stream)
}

type zzStream struct {
	ctx  context.Context
	sent []*proto.BeaconPacket
	fail int // fail the k-th send (1-based), 0 = never
	// a consumer that stopped reading: while gate is set, Send returns only once it is closed (or the stream ends)
	gate chan struct{}
}

func (s *zzStream) Context() context.Context { return s.ctx }
func (s *zzStream) Send(p *proto.BeaconPacket) error {
	if s.gate != nil {
		select {
		case <-s.gate:
		case <-s.ctx.Done():
			return s.ctx.Err()
		}
	}
	if s.fail > 0 && len(s.sent)+1 == s.fail {
		return errors.New("zz: stream send failed")
	}
	s.sent = append(s.sent, p)
	return nil
}

// zzEnvStore wraps the real callback store and lets the environment (another writer: aggregation or sync)
// append beacons at the points where SyncChain touches the store.
type zzEnvStore struct {
	CallbackStore
	next   uint64
	all    []*common.Beacon
	before map[string]int // environment appends before the named access
}

func (e *zzEnvStore) env(point string) {
	for i := 0; i < e.before[point]; i++ {
		b := &common.Beacon{Round: e.next, Signature: []byte{byte(e.next), 0xee}, PreviousSig: []byte{byte(e.next - 1)}}
		e.next++
		e.all = append(e.all, b)
		_ = e.CallbackStore.Put(context.Background(), b)
	}
}

func (e *zzEnvStore) Last(ctx context.Context) (*common.Beacon, error) {
	e.env("last")
	return e.CallbackStore.Last(ctx)
}

type zzEnvCursor struct {
	chain.Cursor
	e *zzEnvStore
}

func (c *zzEnvCursor) Seek(ctx context.Context, r uint64) (*common.Beacon, error) {
	c.e.env("seek")
	return c.Cursor.Seek(ctx, r)
}
func (c *zzEnvCursor) Next(ctx context.Context) (*common.Beacon, error) {
	c.e.env("next")
	c.e.before["next"] = 0 // only once
	return c.Cursor.Next(ctx)
}

func (e *zzEnvStore) Cursor(ctx context.Context, f func(context.Context, chain.Cursor) error) error {
	err := e.CallbackStore.Cursor(ctx, func(ctx context.Context, c chain.Cursor) error {
		return f(ctx, &zzEnvCursor{c, e})
	})
	return err
}

func (e *zzEnvStore) AddCallback(id string, fn CallbackFunc) {
	e.env("addcallback") // the window between the end of the scan and the registration of the live callback
	e.CallbackStore.AddCallback(id, fn)
}

// ZZ_C11_stream: a stream from round r over a store of height m while another writer appends
// e_last / e_seek / e_next / e_addcallback / e_live beacons at the corresponding points.
// The stream must deliver exactly r, r+1, ... (stored values, in order, no gap, no repeat).
func ZZ_C11_stream() {
	m := zz.Param("height", 3) // rounds 0..m-1 initially stored
	base := memdb.NewStore(zz.Param("cap", 10))
	cbs := NewCallbackStore(zzfake.Logger(), base)
	e := &zzEnvStore{CallbackStore: cbs, next: uint64(m), before: map[string]int{}}
	for r := 0; r < m; r++ {
		b := &common.Beacon{Round: uint64(r), Signature: []byte{byte(r), 0xee}, PreviousSig: []byte{byte(r - 1)}}
		e.all = append(e.all, b)
		_ = cbs.Put(context.Background(), b)
	}
	emax := zz.Param("envmax", 1)
	for _, pt := range []string{"last", "seek", "next", "addcallback"} {
		e.before[pt] = zz.Choose("env."+pt, emax+1)
	}
	live := zz.Choose("env.live", emax+1)
	from := uint64(zz.Choose("from", m+2)) // 0 .. m+1 (m+1 is beyond any initial head)
	ctx, cancel := context.WithCancel(context.Background())
	st := &zzStream{ctx: ctx}
	var ret error
	done := false
	go func() {
		ret = SyncChain(zzfake.Logger(), e, &proto.SyncRequest{FromRound: from, Metadata: &proto.Metadata{BeaconID: "default"}}, st)
		done = true
	}()
	zz.Quiesce()
	headAtAccept := uint64(m-1) + uint64(e.before["last"]) // head when the request was admitted
	if from > headAtAccept {
		zz.Assert("beyond_head_is_refused", done && ret != nil && len(st.sent) == 0)
		cancel()
		return
	}
	inWindow := e.before["addcallback"]
	e.before = map[string]int{}
	for i := 0; i < live; i++ {
		b := &common.Beacon{Round: e.next, Signature: []byte{byte(e.next), 0xee}, PreviousSig: []byte{byte(e.next - 1)}}
		e.next++
		e.all = append(e.all, b)
		_ = cbs.Put(context.Background(), b)
		zz.Quiesce()
	}
	zz.Quiesce()
	cancel()
	zz.Quiesce()

	// oracle
	start := from
	if from == 0 {
		// "from 0" means live only (documented protocol behaviour): everything stored after the callback exists
		start = 0
		if len(st.sent) > 0 {
			start = st.sent[0].Round
		}
	}
	if inWindow > 0 && from != 0 {
		// discriminator: the environment stored beacons between the end of the cursor scan and AddCallback
		zz.Tag("env=put_between_scan_and_callback")
	}
	for i, p := range st.sent {
		zz.Assert("strictly_consecutive_from_start", p.Round == start+uint64(i))
		if int(p.Round) < len(e.all) {
			w := e.all[p.Round]
			zz.Assert("delivered_equals_stored", bytes.Equal(p.Signature, w.Signature) && bytes.Equal(p.PreviousSignature, w.PreviousSig))
		}
	}
	if from != 0 {
		want := int(e.next - from) // every stored round from `from` to the final head
		zz.Assert("every_stored_round_delivered", len(st.sent) == want)
	} else {
		zz.Assert("live_rounds_delivered", len(st.sent) >= live)
	}
}

func init() { zz.Register("ZZ_C11_slowConsumerBurst", ZZ_C11_slowConsumerBurst) }

// zzGatedStream blocks inside Send from its k-th send on until the gate is opened (a client that stops
// reading for a while, then resumes).
type zzGatedStream struct {
	zzStream
	gateFrom int
	gate     chan struct{}
}

func (s *zzGatedStream) Send(p *proto.BeaconPacket) error {
	if len(s.sent)+1 >= s.gateFrom {
		<-s.gate
	}
	return s.zzStream.Send(p)
}

// ZZ_C11_slowConsumerBurst: a stream in its live phase whose client stops reading while a burst of beacons
// is stored by a concurrent writer (catch-up after an outage), then reads again. The burst sizes sit around
// the REAL capacity of the per-stream queue (CallbackWorkerQueue): one beacon in flight + a full queue, and
// beyond. Whatever the writer experiences meanwhile, the stream delivers every stored round once, in order.
func ZZ_C11_slowConsumerBurst() {
	bg := context.Background()
	base := memdb.NewStore(2000)
	cbs := NewCallbackStore(zzfake.Logger(), base)
	mk := func(r uint64) *common.Beacon {
		return &common.Beacon{Round: r, Signature: []byte{byte(r), byte(r >> 8), 0xee}, PreviousSig: []byte{byte(r - 1)}}
	}
	for r := uint64(0); r < 3; r++ {
		_ = cbs.Put(bg, mk(r))
	}
	ctx, cancel := context.WithCancel(bg)
	st := &zzGatedStream{zzStream: zzStream{ctx: ctx}, gateFrom: 3, gate: make(chan struct{})} // rounds 1,2 from the store, then stalls at the first live send
	go func() {
		_ = SyncChain(zzfake.Logger(), cbs, &proto.SyncRequest{FromRound: 1, Metadata: &proto.Metadata{BeaconID: "default"}}, st)
	}()
	zz.Quiesce()
	sizes := []int{1, CallbackWorkerQueue, CallbackWorkerQueue + 1, CallbackWorkerQueue + 2, CallbackWorkerQueue + 5}
	burst := sizes[zz.Choose("burst", len(sizes))]
	stored := 0
	go func() { // the writer (aggregation / sync) keeps storing; it may have to wait for the consumer
		for i := 0; i < burst; i++ {
			if cbs.Put(bg, mk(uint64(3+i))) == nil {
				stored++
			}
		}
	}()
	zz.Quiesce()
	close(st.gate) // the client reads again
	zz.Quiesce()
	zz.Quiesce()
	zz.Assert("burst_is_stored", stored == burst)
	zz.Assert("every_stored_round_delivered_after_the_stall", len(st.sent) == 2+burst)
	for i, p := range st.sent {
		zz.Assert("delivered_in_order_without_gap", p.Round == uint64(1+i))
	}
	cancel()
}

func init() { zz.Register("ZZ_C11_reconnect", ZZ_C11_reconnect) }

// zzHookStore lets the environment act right after the stream registered its live callback.
type zzHookStore struct {
	CallbackStore
	afterAdd func()
}

func (s *zzHookStore) AddCallback(id string, fn CallbackFunc) {
	s.CallbackStore.AddCallback(id, fn)
	if s.afterAdd != nil {
		f := s.afterAdd
		s.afterAdd = nil
		f()
	}
}

// ZZ_C11_reconnect: a client reconnects: a second stream from the same remote address (same callback id) while
// the first one is still registered. The old connection may have been closed before, may stay open, or may
// die right after the new stream registered (before the old stream learnt that it was replaced). In every
// case the NEW stream delivers every stored round from its start round, once, in order; the old stream ends.
func ZZ_C11_reconnect() {
	bg := context.Background()
	base := memdb.NewStore(100)
	cbs := NewCallbackStore(zzfake.Logger(), base)
	mk := func(r uint64) *common.Beacon {
		return &common.Beacon{Round: r, Signature: []byte{byte(r), 0xee}, PreviousSig: []byte{byte(r - 1)}}
	}
	for r := uint64(0); r < 3; r++ {
		_ = cbs.Put(bg, mk(r))
	}
	req := &proto.SyncRequest{FromRound: 1, Metadata: &proto.Metadata{BeaconID: "default"}}
	ctxA, cancelA := context.WithCancel(bg)
	stA := &zzStream{ctx: ctxA}
	doneA := false
	go func() {
		_ = SyncChain(zzfake.Logger(), cbs, req, stA)
		doneA = true
	}()
	zz.Quiesce()
	order := zz.Choose("old_connection", 4)
	hook := &zzHookStore{CallbackStore: cbs}
	if order == 3 {
		// the old stream is STUCK in a send with a further beacon queued behind it when the client reconnects;
		// it comes loose only after the new stream has caught up. What was queued for the old stream is the old
		// stream's business: the new one still gets every round once, in order.
		stA.gate = make(chan struct{})
		for r := uint64(3); r < 5; r++ {
			_ = cbs.Put(bg, mk(r))
			zz.Quiesce()
		}
		ctxB, cancelB := context.WithCancel(bg)
		stB := &zzStream{ctx: ctxB}
		go func() { _ = SyncChain(zzfake.Logger(), cbs, req, stB) }()
		zz.Quiesce()
		_ = cbs.Put(bg, mk(5))
		zz.Quiesce()
		close(stA.gate)
		zz.Quiesce()
		_ = cbs.Put(bg, mk(6))
		zz.Quiesce()
		zz.Assert("new_stream_delivers_every_stored_round", len(stB.sent) == 6)
		for i, p := range stB.sent {
			zz.Assert("new_stream_in_order_from_its_start", p.Round == uint64(1+i))
		}
		cancelA()
		cancelB()
		zz.Quiesce()
		return
	}
	switch order {
	case 0: // closed before the client reconnects
		cancelA()
		zz.Quiesce()
	case 2: // dies right after the new stream registered
		zz.Tag("old_connection_dies_after_new_registration")
		hook.afterAdd = cancelA
	}
	ctxB, cancelB := context.WithCancel(bg)
	stB := &zzStream{ctx: ctxB}
	go func() { _ = SyncChain(zzfake.Logger(), hook, req, stB) }()
	zz.Quiesce()
	for r := uint64(3); r < 5; r++ {
		_ = cbs.Put(bg, mk(r))
		zz.Quiesce()
	}
	zz.Assert("old_stream_ends", doneA)
	zz.Assert("new_stream_delivers_every_stored_round", len(stB.sent) == 4)
	for i, p := range stB.sent {
		zz.Assert("new_stream_in_order_from_its_start", p.Round == uint64(1+i))
	}
	cancelA()
	cancelB()
	zz.Quiesce()
}
