package beacon

import (
	"bytes"
	"context"
	"errors"
	"fmt"

	"github.com/drand/drand/v2/common"
	"github.com/drand/drand/v2/crypto"
	"github.com/drand/drand/v2/internal/chain"
	chainerrors "github.com/drand/drand/v2/internal/chain/errors"
	"github.com/drand/drand/v2/internal/zzfake"
	zz "github.com/drand/drand/v2/internal/zzverif"
	proto "github.com/drand/drand/v2/protobuf/drand"
)

func init() {
	zz.Register("ZZ_C03_aggregate", ZZ_C03_aggregate)
}

// zzBase is the observation point "base store": an in-memory chain.Store recording every Put.
type zzBase struct {
	chain.Store
	beacons []*common.Beacon
	puts    []*common.Beacon
	failAt  int // fail the k-th Put once (transient storage fault); 0 = never
	calls   int
}

var errZZTransient = errors.New("zz: transient storage failure")

func (s *zzBase) Put(_ context.Context, b *common.Beacon) error {
	s.calls++
	if s.failAt > 0 && s.calls == s.failAt {
		return errZZTransient
	}
	cp := &common.Beacon{Round: b.Round, Signature: append([]byte(nil), b.Signature...), PreviousSig: append([]byte(nil), b.PreviousSig...)}
	if b.PreviousSig == nil {
		cp.PreviousSig = nil
	}
	s.puts = append(s.puts, cp)
	s.beacons = append(s.beacons, cp)
	return nil
}
func (s *zzBase) Last(context.Context) (*common.Beacon, error) {
	if len(s.beacons) == 0 {
		return nil, chainerrors.ErrNoBeaconStored
	}
	return s.beacons[len(s.beacons)-1], nil
}
func (s *zzBase) Get(_ context.Context, r uint64) (*common.Beacon, error) {
	for _, b := range s.beacons {
		if b.Round == r {
			return b, nil
		}
	}
	return nil, chainerrors.ErrNoBeaconStored
}
func (s *zzBase) Len(context.Context) (int, error) { return len(s.beacons), nil }
func (s *zzBase) Close() error                     { return nil }

// zzStack builds the real store stack of newChainStore (minus the metrics-only discrepancy store)
// over the recording base store.
func zzStack(nw *zzNet, base *zzBase, head *common.Beacon) CallbackStore {
	base.beacons = append(base.beacons, head)
	// built by the tree's own constructors (the restart path: each wrapper reads its view of the head from below)
	ss, err := NewSchemeStore(context.Background(), base, nw.sch)
	if err != nil {
		panic(err)
	}
	as, err := newAppendStore(context.Background(), ss)
	if err != nil {
		panic(err)
	}
	return NewCallbackStore(zzfake.Logger(), as)
}

// ZZ_C03_aggregate (also C01, C02, C05d): the real aggregation loop fed with k arbitrary partials.
// Every beacon that reaches the base store verifies under the group key for exactly its round and
// previous signature, is head+1, and was backed by >= t distinct valid partials of the live epoch.
func ZZ_C03_aggregate() {
	n, t, k := zz.Param("n", 3), zz.Param("t", 2), zz.Param("k", 3)
	nw := zzNewNet(n, t)
	chained := nw.sch.Name == crypto.DefaultSchemeID
	hr := zz.U64("head.round")
	zz.Assume(hr < 1<<62)
	head := &common.Beacon{Round: hr, Signature: zz.Bytes("head.sig", 2)}
	base := &zzBase{}
	cbs := zzStack(nw, base, head)
	clk := zzfake.NewClock(zzGenesis + 100)
	h := zzHandler(nw, 0, clk, cbs, &zzfake.Client{Clock: clk})
	cs := h.chain
	ctx, cancel := context.WithCancel(context.Background())
	cs.ctx, cs.ctxCancel = ctx, cancel
	cs.syncm = &SyncManager{log: zzfake.Logger(), newReq: make(chan RequestInfo, 10)}
	cbs.AddCallback("chainstore", func(b *common.Beacon, closed bool) {
		if closed {
			return
		}
		cs.beaconStoredAgg <- b
	})
	go cs.runAggregator()

	// ghost bookkeeping: which distinct members delivered a valid partial for (head+1, head.sig)
	valid := make([]bool, n)
	nvalid := 0
	// ... and which members signed the round over ANOTHER previous signature (only a faulty member does)
	forked := make([]bool, n)
	nforked := 0
	// ... which members delivered a valid partial in a packet that names head.sig as previous signature (what
	// every honest node sends, chained or not: partials are collected per (round, previous signature of the
	// PACKET)), and whether anything reached the aggregator that the intake would not have let through
	honest := make([]bool, n)
	nhonest := 0
	unverified := false
	target := hr + 1
	wantPrev := head.Signature
	// each delivered packet is one of a small set of templates (symbolic choice):
	//   [0,n)    valid partial of member i for (head+1, head.sig)
	//   [n,2n)   valid partial of member i for (head+1, some other previous signature)
	//   2n       valid partial of member 0 for head+2       2n+1  valid partial of member 1 for head+4 (edge of the window)
	//   2n+2     valid partial of member 1 for head+5 (outside the window)
	//   2n+3     partial made with member 1's share of ANOTHER epoch for (head+1, head.sig)
	//   2n+4     arbitrary bytes of the right length
	ntm := zz.Param("templates", 2*n+4)
	sign := func(ep *zzfake.Epoch, signer int, r uint64, prev []byte) []byte {
		msg := nw.sch.DigestBeacon(&common.Beacon{Round: r, PreviousSig: prev})
		sg, err := nw.sch.ThresholdScheme.Sign(ep.Shares[signer], msg)
		if err != nil {
			panic(err)
		}
		return sg
	}
	for i := 0; i < k; i++ {
		pfx := fmt.Sprintf("p%d", i)
		tm := zz.Choose(pfx+".template", ntm)
		r, prev := target, wantPrev
		var sig []byte
		counts := false
		signer := 0
		switch {
		case tm < n:
			signer = tm
			sig = sign(nw.ep, signer, r, prev)
			counts = true
			if !honest[signer] {
				honest[signer] = true
				nhonest++
			}
		case tm < 2*n:
			signer = tm - n
			prev = zz.Bytes(pfx+".prev", 2)
			sig = sign(nw.ep, signer, r, prev)
			counts = !chained || bytes.Equal(prev, wantPrev)
			if bytes.Equal(prev, wantPrev) {
				if !honest[signer] {
					honest[signer] = true
					nhonest++
				}
			} else if !forked[signer] {
				forked[signer] = true
				nforked++
			}
		case tm == 2*n:
			r = target + 1
			sig = sign(nw.ep, 0, r, prev)
		case tm == 2*n+1:
			r = target + 3
			sig = sign(nw.ep, 1, r, prev)
		case tm == 2*n+2:
			r = target + 4
			sig = sign(nw.ep, 1, r, prev)
		case tm == 2*n+3:
			old := zzfake.Deal(nw.sch, nw.n, nw.t, "group-secret", "epoch0")
			sig = sign(old, 1, r, prev)
			unverified = true
		default:
			sig = zz.Bytes(pfx+".raw", nw.sch.SigGroup.PointLen()+2)
			unverified = true
			// arbitrary bytes that are NOT some member's genuine partial for this round (a lucky guess of a
			// valid partial is a valid partial and belongs to the first templates)
			zz.Assume(nw.sch.ThresholdScheme.VerifyPartial(nw.group.PublicKey.PubPoly(nw.sch), nw.sch.DigestBeacon(&common.Beacon{Round: r, PreviousSig: prev}), sig) != nil)
		}
		pkt := &proto.PartialBeaconPacket{Round: r, PreviousSignature: prev, PartialSig: sig}
		if len(base.puts) == 0 && counts && !valid[signer] {
			valid[signer] = true
			nvalid++
		}
		cs.newPartials <- partialInfo{addr: "peer", p: pkt}
		zz.Quiesce()
		if len(base.puts) > 0 {
			zz.Assert("no_beacon_below_threshold", nvalid >= t)
		}
	}
	zz.Quiesce()
	zz.Trace("puts=%d nvalid=%d blocked=%d catchup=%d newPartials=%d stored=%d", len(base.puts), nvalid, zz.NumBlocked(), len(cs.catchupBeacons), len(cs.newPartials), len(cs.beaconStoredAgg))
	pub := nw.group.PublicKey.Key()
	last := head
	for _, b := range base.puts {
		zz.Assert("stored_beacon_verifies", nw.sch.VerifyBeacon(b, pub) == nil)
		zz.Assert("stored_round_is_head_plus_one", b.Round == last.Round+1)
		if chained {
			zz.Assert("stored_prev_links_to_head", bytes.Equal(b.PreviousSig, last.Signature))
		} else {
			zz.Assert("unchained_prev_stripped", b.PreviousSig == nil)
		}
		last = b
	}
	if nvalid < t {
		zz.Assert("below_threshold_nothing_stored", len(base.puts) == 0)
	} else if nhonest >= t && nforked < t && !unverified {
		// enabling obligation (C05d): t valid partials for head+1, in packets naming head.sig, => the beacon is
		// stored and the run loop notified. Preconditions: (1) fewer than t members are faulty -- a THRESHOLD of
		// members signing the round over another previous signature yields a recovered signature that cannot be
		// appended, and the aggregator has flushed the round's partials, the valid ones included, before it
		// tries; (2) the aggregator's input passed the intake (ProcessPartialBeacon verifies every partial): the
		// foreign-epoch and arbitrary-bytes templates are injected here past the intake to check SAFETY only --
		// one of them sitting at a member's index keeps that member's genuine partial out of the round.
		zz.Assert("threshold_reached_beacon_stored", len(base.puts) >= 1 && base.puts[0].Round == target)
		zz.Assert("run_loop_notified", len(cs.catchupBeacons) == 1)
	}
	cancel()
}
