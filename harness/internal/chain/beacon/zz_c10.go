package beacon

import (
	"bytes"
	"context"
	"errors"
	"fmt"

	"github.com/drand/drand/v2/common"
	pubchain "github.com/drand/drand/v2/common/chain"
	"github.com/drand/drand/v2/crypto"
	"github.com/drand/drand/v2/internal/chain"
	"github.com/drand/drand/v2/internal/net"
	"github.com/drand/drand/v2/internal/zzfake"
	zz "github.com/drand/drand/v2/internal/zzverif"
	proto "github.com/drand/drand/v2/protobuf/drand"
)

func init() {
	zz.Register("ZZ_C10_sync", ZZ_C10_sync)
	zz.Register("ZZ_C10_checkPast", ZZ_C10_checkPast)
}

type zzPeer struct{ addr string }

func (p *zzPeer) Address() string { return p.addr }

// zzHonestChain returns the honest beacons head+1..head+m (chained on head when the scheme is chained).
func zzHonestChain(nw *zzNet, head *common.Beacon, m int) []*common.Beacon {
	var out []*common.Beacon
	prev := head
	for i := 1; i <= m; i++ {
		b := &common.Beacon{Round: head.Round + uint64(i)}
		if nw.sch.Name == crypto.DefaultSchemeID {
			b.PreviousSig = prev.Signature
		}
		b.Signature = zzfake.SignBeacon(nw.sch, nw.ep, b.Round, b.PreviousSig)
		out = append(out, b)
		prev = b
	}
	return out
}

func zzSyncManager(nw *zzNet, store, insecure chain.Store, client *zzfake.Client, clk *zzfake.Clock, own string) *SyncManager {
	return &SyncManager{ctx: context.Background(), ctxCancel: func() {}, log: zzfake.Logger(), clock: clk, store: store, insecureStore: insecure,
		info: pubchain.NewChainInfo(nw.group), client: client, scheme: nw.sch, period: nw.group.Period, factor: syncExpiryFactor,
		newReq: make(chan RequestInfo, syncQueueRequest), newSyncedBeacon: make(chan *common.Beacon, 1), nodeAddr: own}
}

// ZZ_C10_sync (also C01 sync path, C02 sync side): SyncManager.Sync over peers with arbitrary behaviours.
// Only verified, in-order beacons reach the base store; with an honest peer that is ahead the target is
// reached; without one the call reports ErrFailedAll.
func ZZ_C10_sync() {
	nw := zzNewNet(3, 2)
	m := zz.Param("rounds", 2)
	npeers := zz.Param("peers", 2)
	head := &common.Beacon{Round: 5, Signature: zz.Bytes("head.sig", 2)}
	base := &zzBase{failAt: zz.Choose("store.fail_at", zz.Param("store_faults", 1)+0)} // transient fault on the k-th write
	cbs := zzStack(nw, base, head)
	clk := zzfake.NewClock(zzGenesis + 1000)
	honest := zzHonestChain(nw, head, m)
	upTo := head.Round + uint64(m)
	own := "self.example:1"

	// peer behaviours: 0 honest (all rounds, stream stays open) | 1 bad signature at position j | 2 closes after j
	// beacons | 3 foreign beacon id at position j | 4 connection error | 5 skips position j | 6 is this node itself
	// | 7 honest but with nil metadata (pre-1.4 peer) | 8 stalls: j beacons, then silence on an open stream
	nbeh := zz.Param("behaviours", 7)
	beh := make([]int, npeers)
	pos := make([]int, npeers)
	peers := make([]net.Peer, npeers)
	anyHonest := false
	for i := range peers {
		beh[i] = zz.Choose(fmt.Sprintf("peer%d.behaviour", i), nbeh)
		pos[i] = zz.Choose(fmt.Sprintf("peer%d.pos", i), m)
		addr := fmt.Sprintf("peer%d.example:1", i)
		if beh[i] == 6 {
			addr = own
		}
		if beh[i] == 0 || beh[i] == 7 {
			anyHonest = true
		}
		peers[i] = &zzPeer{addr}
	}
	client := &zzfake.Client{Clock: clk}
	client.SyncFn = func(_ context.Context, p net.Peer, in *proto.SyncRequest) (chan *proto.BeaconPacket, error) {
		var me int
		for i := range peers {
			if peers[i].Address() == p.Address() {
				me = i
			}
		}
		zz.Assert("self_is_never_asked", p.Address() != own)
		if beh[me] == 4 {
			return nil, zzfake.ErrFake
		}
		ch := make(chan *proto.BeaconPacket, m+1)
		for k, b := range honest {
			if b.Round < in.GetFromRound() {
				continue
			}
			pk := &proto.BeaconPacket{Round: b.Round, Signature: b.Signature, PreviousSignature: b.PreviousSig, Metadata: &proto.Metadata{BeaconID: nw.group.ID}}
			switch {
			case beh[me] == 7:
				pk.Metadata = nil
			case beh[me] == 1 && k == pos[me]:
				pk.Signature = zz.Bytes(fmt.Sprintf("peer%d.badsig", me), len(b.Signature))
				zz.Assume(!bytes.Equal(pk.Signature, b.Signature))
			case beh[me] == 3 && k == pos[me]:
				pk.Metadata = &proto.Metadata{BeaconID: "zz-foreign"}
			case beh[me] == 5 && k == pos[me]:
				continue
			}
			if (beh[me] == 2 || beh[me] == 8) && k >= pos[me] {
				break
			}
			ch <- pk
		}
		if beh[me] != 0 && beh[me] != 7 && beh[me] != 8 {
			close(ch) // misbehaving peers end their stream; only honest and stalling peers keep it open
		}
		return ch, nil
	}
	sm := zzSyncManager(nw, cbs, base, client, clk, own)
	go func() {
		for range sm.newSyncedBeacon {
		}
	}()
	ctx, cancel := context.WithCancel(context.Background())
	// environment: a sync that makes no progress is cancelled by the manager loop (SyncManager.Run does so
	// after factor*period); modelled as "cancel once every goroutine is blocked"
	stalled := false
	for i := range beh {
		if beh[i] == 8 {
			stalled = true
		}
	}
	zz.WhenStuck(cancel)
	err := sm.Sync(ctx, RequestInfo{nodes: peers, upTo: upTo})
	cancel()
	if base.failAt > 0 && err != nil && anyHonest && !stalled {
		// a transient storage fault made the attempt fail: the manager retries on the next request
		zz.Tag("retry_after_transient_store_fault")
		err = sm.Sync(context.Background(), RequestInfo{nodes: peers, upTo: upTo})
		zz.Assert("retry_after_transient_fault_converges", err == nil)
	}

	pub := nw.group.PublicKey.Key()
	last := head
	for _, b := range base.puts {
		zz.Assert("synced_beacon_verifies", nw.sch.VerifyBeacon(b, pub) == nil)
		zz.Assert("synced_in_chain_order", b.Round == last.Round+1)
		if nw.sch.Name == crypto.DefaultSchemeID {
			zz.Assert("synced_links_to_previous", bytes.Equal(b.PreviousSig, last.Signature))
		}
		zz.Assert("synced_not_beyond_target", b.Round <= upTo)
		last = b
	}
	if anyHonest && !stalled && base.failAt == 0 {
		zz.Assert("honest_peer_means_success", err == nil)
		zz.Assert("honest_peer_means_target_reached", last.Round == upTo)
	}
	if anyHonest && !stalled && base.failAt > 0 {
		zz.Assert("target_reached_after_retry", last.Round == upTo)
	}
	// NB: peers that each lie about a different round can still jointly supply a verified chain, so
	// "no fully honest peer" does not imply failure; unreachable peers do.
	allDead := true
	for i := range beh {
		if beh[i] != 4 && beh[i] != 6 {
			allDead = false
		}
	}
	if allDead {
		zz.Assert("unreachable_peers_report_failed_all", errors.Is(err, ErrFailedAll) && len(base.puts) == 0)
	}
	if last.Round != upTo {
		zz.Assert("target_missed_is_reported", err != nil)
	}
	if err == nil {
		zz.Assert("success_means_target_reached", last.Round == upTo)
	}
}

// ZZ_C10_checkPast: CheckPastBeacons reports exactly the rounds that cannot be read back or do not verify.
func ZZ_C10_checkPast() {
	nw := zzNewNet(3, 2)
	m := zz.Param("rounds", 3)
	gen := &common.Beacon{Round: 0, Signature: []byte("zz-genesis-seed")}
	good := zzHonestChain(nw, gen, m)
	base := &zzBase{beacons: []*common.Beacon{gen}}
	var want []uint64
	state := make([]int, m)
	for i, b := range good {
		state[i] = zz.Choose(fmt.Sprintf("round%d.state", i+1), 3) // 0 ok, 1 missing, 2 invalid signature
		switch state[i] {
		case 0:
			base.beacons = append(base.beacons, b)
		case 2:
			bad := &common.Beacon{Round: b.Round, PreviousSig: b.PreviousSig, Signature: zz.Bytes(fmt.Sprintf("round%d.badsig", i+1), len(b.Signature))}
			zz.Assume(!bytes.Equal(bad.Signature, b.Signature))
			base.beacons = append(base.beacons, bad)
		}
	}
	// the store head must exist: make the last round present (ok or invalid)
	zz.Assume(state[m-1] != 1)
	upTo := uint64(zz.Choose("upto", m+2)) // 0..m+1 (beyond head is clamped)
	lim := upTo
	if lim > uint64(m) {
		lim = uint64(m)
	}
	for i := 0; uint64(i) < lim; i++ {
		if state[i] != 0 {
			want = append(want, uint64(i+1))
		}
	}
	clk := zzfake.NewClock(zzGenesis + 1000)
	sm := zzSyncManager(nw, base, base, &zzfake.Client{Clock: clk}, clk, "self.example:1")
	calls := 0
	got, err := sm.CheckPastBeacons(context.Background(), upTo, func(r, u uint64) { calls++ })
	zz.Assert("check_returns_no_error", err == nil)
	zz.Assert("faulty_count_matches", len(got) == len(want))
	if len(got) == len(want) {
		for i := range got {
			zz.Assert("faulty_rounds_match_in_order", got[i] == want[i])
		}
	}
	zz.Assert("progress_reported_per_round", uint64(calls) == lim)
}

func init() { zz.Register("ZZ_C10_repair", ZZ_C10_repair) }

// ZZ_C10_repair: the repair path (CorrectPastBeacons -> ReSync -> Sync -> tryNode in re-sync mode, which
// writes to the raw store). The store holds a chain of m rounds of which a symbolic subset is damaged (missing
// or carrying a bad signature); the check reports them; the repair runs against peers whose behaviour is
// symbolic: honest, unreachable, answering with a forged beacon for the requested round, or slipping in a
// packet for ROUND 0 (the genesis entry, which no signature protects) or for another round with a bad
// signature. Whatever the peers do, every beacon written verifies for exactly its round, the genesis entry
// and the healthy rounds are never replaced by something else, and with an honest peer exactly the damaged
// rounds are restored.
func ZZ_C10_repair() {
	nw := zzNewNet(3, 2)
	m := zz.Param("rounds", 3)
	gen := &common.Beacon{Round: 0, Signature: []byte("zz-genesis-seed")}
	good := zzHonestChain(nw, gen, m)
	base := &zzRepairStore{byRound: map[uint64]*common.Beacon{0: gen}}
	state := make([]int, m)
	for i, b := range good {
		state[i] = zz.Choose(fmt.Sprintf("round%d.state", i+1), 3) // 0 ok, 1 missing, 2 invalid signature
		switch state[i] {
		case 0:
			base.byRound[b.Round] = b
		case 2:
			bad := &common.Beacon{Round: b.Round, PreviousSig: b.PreviousSig, Signature: zz.Bytes(fmt.Sprintf("round%d.badsig", i+1), len(b.Signature))}
			zz.Assume(!bytes.Equal(bad.Signature, b.Signature))
			base.byRound[b.Round] = bad
		}
	}
	zz.Assume(state[m-1] != 1) // the head exists
	base.head = uint64(m)
	clk := zzfake.NewClock(zzGenesis + 1000)
	client := &zzfake.Client{Clock: clk}
	npeers := 2
	beh := make([]int, npeers)
	peers := make([]net.Peer, npeers)
	for i := range peers {
		nb := 6
		if i == 1 {
			nb = zz.Param("peer1_behaviours", 6)
		}
		beh[i] = zz.Choose(fmt.Sprintf("peer%d.behaviour", i), nb) // 0 honest, 1 unreachable, 2 forged beacon for the round, 3 round-0 packet first, 4 other round with a bad signature first, 5 genuine beacons but WITHOUT the first round asked for (a peer with the same hole)
		peers[i] = &zzPeer{fmt.Sprintf("peer%d.example:1", i)}
	}
	client.SyncFn = func(_ context.Context, p net.Peer, in *proto.SyncRequest) (chan *proto.BeaconPacket, error) {
		me := 0
		if p.Address() == peers[1].Address() {
			me = 1
		}
		if beh[me] == 1 {
			return nil, zzfake.ErrFake
		}
		ch := make(chan *proto.BeaconPacket, 4)
		r := in.GetFromRound()
		md := &proto.Metadata{BeaconID: nw.group.ID}
		switch beh[me] {
		case 2:
			ch <- &proto.BeaconPacket{Round: r, PreviousSignature: good[r-1].PreviousSig, Signature: zz.Bytes(fmt.Sprintf("peer%d.forged", me), len(good[0].Signature)), Metadata: md}
		case 3:
			ch <- &proto.BeaconPacket{Round: 0, Signature: zz.Bytes(fmt.Sprintf("peer%d.fake_genesis", me), 4), Metadata: md}
		case 4:
			other := 1 + int(r)%m
			ch <- &proto.BeaconPacket{Round: uint64(other), PreviousSignature: good[other-1].PreviousSig, Signature: zz.Bytes(fmt.Sprintf("peer%d.forged_other", me), len(good[0].Signature)), Metadata: md}
		}
		for _, b := range good {
			if b.Round >= r && !(beh[me] == 5 && b.Round == r) {
				ch <- &proto.BeaconPacket{Round: b.Round, Signature: b.Signature, PreviousSignature: b.PreviousSig, Metadata: md}
			}
		}
		close(ch)
		return ch, nil
	}
	sm := zzSyncManager(nw, base, base, client, clk, "self.example:1")
	go func() {
		for range sm.newSyncedBeacon {
		}
	}()
	faulty, err := sm.CheckPastBeacons(context.Background(), uint64(m), func(r, u uint64) {})
	zz.Assert("check_returns_no_error", err == nil)
	var want []uint64
	for i := range state {
		if state[i] != 0 {
			want = append(want, uint64(i+1))
		}
	}
	zz.Assert("check_reports_exactly_the_damaged_rounds", len(faulty) == len(want))
	rerr := sm.CorrectPastBeacons(context.Background(), faulty, peers, func(r, u uint64) {})
	zz.Quiesce()
	pub := nw.group.PublicKey.Key()
	for _, b := range base.puts {
		zz.Assert("repair_never_touches_the_genesis_entry", b.Round != 0)
		if b.Round >= 1 && int(b.Round) <= m {
			zz.Assert("repair_writes_only_verified_beacons", nw.sch.VerifyBeacon(b, pub) == nil)
			zz.Assert("repair_writes_the_genuine_beacon_of_the_round", bytes.Equal(b.Signature, good[b.Round-1].Signature))
		}
	}
	zz.Assert("genesis_entry_is_intact", bytes.Equal(base.byRound[0].Signature, gen.Signature))
	for i := range state {
		if state[i] == 0 {
			zz.Assert("healthy_round_still_holds_its_genuine_beacon", bytes.Equal(base.byRound[uint64(i+1)].Signature, good[i].Signature))
		}
	}
	anyHonest := beh[0] == 0 || beh[1] == 0
	if anyHonest {
		zz.Assert("repair_succeeds_with_an_honest_peer", rerr == nil)
		for i := range state {
			b := base.byRound[uint64(i+1)]
			zz.Assert("damaged_rounds_are_restored", b != nil && bytes.Equal(b.Signature, good[i].Signature))
		}
	}
	if beh[0] == 1 && beh[1] == 1 && len(want) > 0 {
		zz.Assert("unreachable_peers_are_reported", rerr != nil)
	}
}

// zzRepairStore: a round-indexed store that REPLACES on Put (what the raw bolt store does) and records every write.
type zzRepairStore struct {
	chain.Store
	byRound map[uint64]*common.Beacon
	head    uint64
	puts    []*common.Beacon
}

func (s *zzRepairStore) Put(_ context.Context, b *common.Beacon) error {
	cp := &common.Beacon{Round: b.Round, Signature: append([]byte(nil), b.Signature...), PreviousSig: append([]byte(nil), b.PreviousSig...)}
	s.byRound[b.Round] = cp
	s.puts = append(s.puts, cp)
	if b.Round > s.head {
		s.head = b.Round
	}
	return nil
}
func (s *zzRepairStore) Last(context.Context) (*common.Beacon, error) { return s.byRound[s.head], nil }
func (s *zzRepairStore) Get(_ context.Context, r uint64) (*common.Beacon, error) {
	if b, ok := s.byRound[r]; ok {
		return b, nil
	}
	return nil, errors.New("zz: no beacon stored for this round")
}
func (s *zzRepairStore) Close() error { return nil }
