package beacon

import (
	"context"

	"github.com/drand/drand/v2/common"
	"github.com/drand/drand/v2/internal/chain"
	"github.com/drand/drand/v2/internal/chain/boltdb"
	"github.com/drand/drand/v2/internal/zzfake"
	zz "github.com/drand/drand/v2/internal/zzverif"
)

func init() { zz.Register("ZZ_C13_servedThenCrash", ZZ_C13_servedThenCrash) }

// ZZ_C13_servedThenCrash: the node's real store stack (callback store, append-only check, scheme check) over
// the bolt back-end, with a watcher registered the way streams, waiting public requests and the sync server
// register (AddCallback): whatever the watcher was handed has been SERVED. Beacons are stored one after the
// other and the process dies at any persistence point of the database. After the restart (database reopened,
// stack rebuilt) the store holds a gap-free prefix that contains every beacon whose Put had returned and every
// beacon that had been served.
func ZZ_C13_servedThenCrash() {
	n := zz.Param("beacons", 3)
	trimmed := zz.Param("backend", 0) == 0
	nw := zzNewNet(3, 2)
	ctx := context.Background()
	dir := zz.TempDir("c13served")
	open := func() chain.Store {
		c := ctx
		if trimmed {
			c = boltdb.IsATest(ctx)
		}
		s, err := boltdb.NewBoltStore(c, zzfake.Logger(), dir)
		if err != nil {
			panic(err)
		}
		return s
	}
	stack := func(base chain.Store) CallbackStore {
		ss, err := NewSchemeStore(ctx, base, nw.sch)
		if err != nil {
			panic(err)
		}
		as, err := newAppendStore(ctx, ss)
		if err != nil {
			panic(err)
		}
		return NewCallbackStore(zzfake.Logger(), as)
	}
	base := open()
	genesis := &common.Beacon{Round: 0, Signature: []byte("genesis-seed")}
	if err := base.Put(ctx, genesis); err != nil {
		panic(err)
	}
	cbs := stack(base)
	var served []uint64
	cbs.AddCallback("watcher", func(b *common.Beacon, _ bool) { served = append(served, b.Round) })
	returned := 0
	k := zz.Choose("crash_at", 2*n+3)
	zz.CrashAt(k)
	prev := genesis.Signature
	crashed := zz.RunUntilCrash(func() {
		for r := 1; r <= n; r++ {
			b := &common.Beacon{Round: uint64(r), Signature: []byte{byte(0x40 + r)}, PreviousSig: prev}
			if err := cbs.Put(ctx, b); err != nil {
				return
			}
			returned = r
			prev = b.Signature
			zz.Yield() // the watcher's worker runs
		}
	})
	if crashed {
		zz.Tag("crash=" + zz.CrashedAt())
		// what had been handed to the watcher's worker by then may have been delivered before the process died
		// (the worker runs concurrently with the writer)
		if q, ok := cbs.(*callbackStore).newJob["watcher"]; ok {
			for len(q) > 0 {
				j := <-q
				served = append(served, j.b.Round)
			}
		}
	} else {
		zz.Quiesce()
		_ = base.Close()
	}
	// restart
	base2 := open()
	cbs2 := stack(base2)
	last, err := cbs2.Last(ctx)
	zz.Assert("restart_opens", err == nil && last != nil)
	if err != nil || last == nil {
		return
	}
	zz.Assert("every_acknowledged_beacon_survives", last.Round >= uint64(returned))
	for _, r := range served {
		zz.Assert("every_served_beacon_survives", r <= last.Round)
	}
	for r := uint64(1); r <= last.Round; r++ {
		b, gerr := cbs2.Get(ctx, r)
		zz.Assert("survivors_form_a_gap_free_chain", gerr == nil && b != nil && b.Round == r && len(b.Signature) == 1 && b.Signature[0] == byte(0x40+r))
	}
	if !crashed {
		zz.Assert("without_a_crash_everything_is_stored_and_served", last.Round == uint64(n) && len(served) == n)
	}
}
