package beacon

import (
	"bytes"
	"context"
	"errors"
	"fmt"
	"time"

	"github.com/drand/drand/v2/common"
	"github.com/drand/drand/v2/internal/chain"
	"github.com/drand/drand/v2/internal/chain/memdb"
	"github.com/drand/drand/v2/internal/net"
	"github.com/drand/drand/v2/internal/zzfake"
	zz "github.com/drand/drand/v2/internal/zzverif"
	proto "github.com/drand/drand/v2/protobuf/drand"
	"google.golang.org/grpc"
)

func init() { zz.Register("ZZ_C05_network", ZZ_C05_network) }

// zzWorldNet: n real Handlers (beacon.NewHandler: ticker, run loop, aggregator, sync manager, store stack over
// the in-memory back-end) joined by an in-process network with per-link up/down switches, on one fake clock.
type zzWorldNet struct {
	nw     *zzNet
	hs     []*Handler
	addrs  []string
	up     [][]bool
	clk    *zzfake.Clock
	sent   []zzNetPartial
	stores []*zzFaultyStore
}

// zzFaultyStore: the node's database, which may refuse writes for a while (disk full, cancelled transaction).
type zzFaultyStore struct {
	chain.Store
	refuse bool
}

var errZZDisk = errors.New("zz: the database refuses the write")

func (s *zzFaultyStore) Put(ctx context.Context, b *common.Beacon) error {
	if s.refuse {
		return errZZDisk
	}
	return s.Store.Put(ctx, b)
}

type zzNetPartial struct {
	from   int
	round  uint64
	atUnix int64
}

func (w *zzWorldNet) index(addr string) int {
	for i, a := range w.addrs {
		if a == addr {
			return i
		}
	}
	return -1
}

type zzNetClient struct {
	w    *zzWorldNet
	from int
}

func (c *zzNetClient) GetIdentity(context.Context, net.Peer, *proto.IdentityRequest, ...net.CallOption) (*proto.IdentityResponse, error) {
	return nil, zzfake.ErrFake
}
func (c *zzNetClient) Status(context.Context, net.Peer, *proto.StatusRequest, ...grpc.CallOption) (*proto.StatusResponse, error) {
	return nil, zzfake.ErrFake
}
func (c *zzNetClient) Check(context.Context, net.Peer) error { return nil }

func (c *zzNetClient) PartialBeacon(ctx context.Context, p net.Peer, in *proto.PartialBeaconPacket, _ ...net.CallOption) error {
	to := c.w.index(p.Address())
	c.w.sent = append(c.w.sent, zzNetPartial{c.from, in.GetRound(), c.w.clk.Now().Unix()})
	if to < 0 || !c.w.up[c.from][to] {
		return zzfake.ErrFake
	}
	_, err := c.w.hs[to].ProcessPartialBeacon(zz.WithRemote(context.Background(), c.w.addrs[c.from]), in)
	return err
}

type zzChanStream struct {
	ctx context.Context
	ch  chan *proto.BeaconPacket
}

func (s *zzChanStream) Context() context.Context { return s.ctx }
func (s *zzChanStream) Send(p *proto.BeaconPacket) error {
	select {
	case s.ch <- p:
		return nil
	case <-s.ctx.Done():
		return s.ctx.Err()
	}
}

func (c *zzNetClient) SyncChain(ctx context.Context, p net.Peer, in *proto.SyncRequest, _ ...net.CallOption) (chan *proto.BeaconPacket, error) {
	to := c.w.index(p.Address())
	if to < 0 || !c.w.up[c.from][to] {
		return nil, zzfake.ErrFake
	}
	ch := make(chan *proto.BeaconPacket, 4)
	st := &zzChanStream{ctx: zz.WithRemote(ctx, c.w.addrs[c.from]), ch: ch}
	peer := c.w.hs[to]
	go func() {
		_ = SyncChain(zzfake.Logger(), peer.chain, in, st) // the serving side, as BeaconProcess.SyncChain runs it
		close(ch)
	}()
	return ch, nil
}

func zzNewWorldNet(n, t int, startUnix int64) *zzWorldNet {
	nw := zzNewNet(n, t)
	w := &zzWorldNet{nw: nw, clk: zzfake.NewClock(startUnix)}
	w.clk.AutoAdvance = false
	for i := 0; i < n; i++ {
		w.addrs = append(w.addrs, nw.group.Nodes[i].Address())
		row := make([]bool, n)
		for j := range row {
			row[j] = true
		}
		w.up = append(w.up, row)
	}
	for i := 0; i < n; i++ {
		conf := &Config{Public: nw.group.Nodes[i], Share: nw.ep.Share(nw.sch, i), Group: nw.group, Clock: w.clk}
		st := &zzFaultyStore{Store: memdb.NewStore(200)}
		h, err := NewHandler(context.Background(), &zzNetClient{w, i}, st, conf, zzfake.Logger(), common.GetAppVersion())
		if err != nil {
			panic(err)
		}
		w.hs = append(w.hs, h)
		w.stores = append(w.stores, st)
	}
	return w
}

func (w *zzWorldNet) isolate(i int, isolated bool) {
	for j := range w.up {
		if j != i {
			w.up[i][j], w.up[j][i] = !isolated, !isolated
		}
	}
}

func (w *zzWorldNet) head(i int) uint64 {
	b, err := w.hs[i].chain.Last(context.Background())
	if err != nil || b == nil {
		return 0
	}
	return b.Round
}

// tick moves the shared clock by d and lets every goroutine run until the whole system is quiet.
func (w *zzWorldNet) advance(d time.Duration) {
	w.clk.Advance(d)
	zz.Quiesce()
}

// ZZ_C05_network (also C02, C03, C04): a small network of REAL handlers driven round by round through a
// symbolic fault script -- a bounded scenario, not a liveness proof:
//
//	phase 1  two healthy rounds;
//	phase 2  an outage of `outage` rounds of one of several shapes (one node cut off; everything cut; too few
//	         nodes connected), possibly with one node's links healing one round late;
//	phase 3  the network is healed and the clock moves on for `healed` more rounds, in catch-up-period steps.
//
// While a threshold of members is connected every due round is produced by the connected ones; after the heal
// every node reaches the round of the clock (catch-up faster than one round per period), nobody skips a round,
// all stores are byte-identical and verify, and no partial ever left a node before its round's time.
func ZZ_C05_network() {
	n, t := zz.Param("n", 3), zz.Param("t", 2)
	w := zzNewWorldNet(n, t, zzGenesis-2)
	nw := w.nw
	period := nw.group.Period
	for _, h := range w.hs {
		if err := h.Start(context.Background()); err != nil {
			panic(err)
		}
	}
	zz.Quiesce()
	clockRound := func() uint64 { return common.CurrentRound(w.clk.Now().Unix(), period, zzGenesis) }
	// phase 1: genesis and two healthy rounds
	w.advance(2 * time.Second) // genesis: round 1
	w.advance(period)          // round 2
	for i := 0; i < n; i++ {
		zz.Assert("healthy_network_produces_every_due_round", w.head(i) == 2)
	}
	// phase 2: the outage
	shape := zz.Choose("outage.shape", 7)
	victim := zz.Choose("outage.victim", n)
	outage := 1 + zz.Choose("outage.rounds", zz.Param("max_outage", 2))
	if shape == 1 && zz.Param("long_outage", 0) > 0 && zz.Bool("outage.long") {
		// a network-wide halt longer than the window in which nodes keep partials (head+4): only the per-tick
		// re-broadcast on top of the stored head can restart the chain afterwards
		outage = zz.Param("long_outage", 0)
	}
	switch shape {
	case 0: // one node cut off, the others (>= t) keep going
		w.isolate(victim, true)
	case 1: // every link down
		for i := 0; i < n; i++ {
			w.isolate(i, true)
		}
	case 2: // only the victim's OUTGOING links are down (it hears the others, they do not hear it)
		for j := 0; j < n; j++ {
			if j != victim {
				w.up[victim][j] = false
			}
		}
	case 3: // no fault
	case 6: // the victim's database refuses every write for the length of the outage; the network is fine
		w.stores[victim].refuse = true
	case 5: // the victim's process stops; it is restarted over its own store when the outage ends (Catchup)
		w.hs[victim].Stop(context.Background())
		w.isolate(victim, true)
	case 4: // like 0, and when the victim comes back ANOTHER node goes away for good (stop / permanent partition):
		// the returning node, exactly `outage` rounds behind, and the remaining ones must form the threshold
		w.isolate(victim, true)
	}
	for r := 0; r < outage; r++ {
		w.advance(period)
	}
	connected := n
	if shape == 0 || shape == 2 || shape == 4 || shape == 5 {
		connected = n - 1
	}
	if shape != 1 && connected >= t {
		for i := 0; i < n; i++ {
			if (shape == 0 || shape == 4 || shape == 5 || shape == 6) && i == victim {
				continue
			}
			zz.Assert("connected_threshold_keeps_producing_during_the_outage", w.head(i) == clockRound())
		}
	}
	if shape == 1 {
		for i := 0; i < n; i++ {
			zz.Assert("no_beacon_without_a_connected_threshold", w.head(i) == 2)
		}
	}
	// phase 3: heal (one node possibly one round later than the rest)
	w.stores[victim].refuse = false
	if shape == 5 {
		// restart: a new handler over the surviving store, as the daemon does after a restart
		conf := &Config{Public: nw.group.Nodes[victim], Share: nw.ep.Share(nw.sch, victim), Group: nw.group, Clock: w.clk}
		h, err := NewHandler(context.Background(), &zzNetClient{w, victim}, w.stores[victim], conf, zzfake.Logger(), common.GetAppVersion())
		if err != nil {
			panic(err)
		}
		w.hs[victim] = h
		w.isolate(victim, false)
		h.Catchup(context.Background())
		zz.Quiesce()
	}
	late := shape != 5 && zz.Bool("heal.victim_one_round_late")
	for i := 0; i < n; i++ {
		if !(late && i == victim) {
			w.isolate(i, false)
		}
	}
	if late {
		w.isolate(victim, true)
		w.advance(period)
		w.isolate(victim, false)
	}
	gone := -1
	if shape == 4 && n-1 >= t {
		gone = (victim + 1) % n
		w.isolate(gone, true)
	}
	healed := zz.Param("healed_rounds", 3)
	if healed < outage+2 {
		// catching up g missed rounds at one round per catch-up period (half a period) while new rounds keep
		// coming due takes about g periods: give the network that long, plus a margin
		healed = outage + 2
	}
	catchup := nw.group.CatchupPeriod
	for r := 0; r < healed; r++ {
		// one period, in catch-up-period steps so that catch-up timers fire in between ticks
		for el := time.Duration(0); el < period; el += catchup {
			w.advance(catchup)
		}
	}
	cr := clockRound()
	for i := 0; i < n; i++ {
		if i != gone {
			zz.Assert("after_the_heal_every_node_reaches_the_current_round", w.head(i) == cr)
		}
	}
	// every node holds the same gap-free, verifiable chain
	pub := nw.group.PublicKey.Key()
	ref := 0
	if gone == 0 {
		ref = 1
	}
	for r := uint64(1); r <= cr; r++ {
		b0, err0 := w.hs[ref].chain.Get(context.Background(), r)
		zz.Assert("no_round_skipped", err0 == nil && b0 != nil)
		if err0 != nil || b0 == nil {
			continue
		}
		zz.Assert("stored_beacons_verify", nw.sch.VerifyBeacon(b0, pub) == nil)
		for i := 0; i < n; i++ {
			if i == ref {
				continue
			}
			bi, err := w.hs[i].chain.Get(context.Background(), r)
			if i == gone && r > w.head(i) {
				continue // the node that went away holds a prefix
			}
			zz.Assert("no_round_skipped", err == nil && bi != nil)
			if err == nil && bi != nil {
				zz.Assert("honest_nodes_hold_identical_beacons", bi.Round == b0.Round && bytes.Equal(bi.Signature, b0.Signature) && bytes.Equal(bi.PreviousSig, b0.PreviousSig))
			}
		}
	}
	for _, s := range w.sent {
		zz.Assert("no_partial_before_its_round_time", common.TimeOfRound(period, zzGenesis, s.round) <= s.atUnix)
	}
	for _, h := range w.hs {
		h.Stop(context.Background())
	}
	_ = fmt.Sprint
}

func init() { zz.Register("ZZ_C07_networkReshare", ZZ_C07_networkReshare) }

// ZZ_C07_networkReshare (also C02, C03): the same small network of real handlers goes through a RESHARING while
// it produces beacons: a new group (same distributed key, new polynomial and shares, possibly another threshold,
// possibly one member leaving) takes over at a transition round. Each node registers the transition
// (TransitionNewGroup) when its key generation completes -- one node possibly a round later than the others. The chain continues across the transition with no gap, no fork and
// no halted round; afterwards every remaining node runs the new group, the chain info is unchanged, and all
// stores are identical and verify under the unchanged public key.
func ZZ_C07_networkReshare() {
	n, t := zz.Param("n", 3), zz.Param("t", 2)
	w := zzNewWorldNet(n, t, zzGenesis-2)
	nw := w.nw
	period := nw.group.Period
	for _, h := range w.hs {
		if err := h.Start(context.Background()); err != nil {
			panic(err)
		}
	}
	zz.Quiesce()
	w.advance(2 * time.Second) // round 1
	w.advance(period)          // round 2
	// the new epoch
	tRound := uint64(5)
	tNew := t + zz.Choose("new_threshold_delta", n-t+1) // t .. n
	leaver := -1
	members := n
	if zz.Bool("last_member_leaves") && n-1 >= t {
		leaver = n - 1
		members = n - 1
		if tNew > members {
			tNew = members
		}
	}
	newEp := zzfake.Deal(nw.sch, n, tNew, "group-secret", "epoch2")
	newGroup := zzfake.Group(nw.sch, nw.pairs[:members], tNew, period, zzGenesis, newEp, "")
	newGroup.GenesisSeed = nw.group.GenesisSeed
	newGroup.TransitionTime = common.TimeOfRound(period, zzGenesis, tRound)
	infoBefore := w.hs[0].crypto.GetInfo().Hash()
	lateNode := -1
	if zz.Bool("one_node_completes_its_dkg_late") {
		lateNode = zz.Choose("late_node", members)
	}
	register := func(i int) {
		if i != leaver {
			w.hs[i].TransitionNewGroup(context.Background(), newEp.Share(nw.sch, i), newGroup)
		}
	}
	for i := 0; i < n; i++ {
		if i != lateNode {
			register(i)
		}
	}
	w.advance(period) // round 3
	if lateNode >= 0 {
		// late, but before the last round of the old group is produced. (A node that registers only AFTER that
		// round is stored keeps the old share until the next beacon is stored; if the new threshold needs that very
		// node the network cannot produce it -- a schedule that requires one node's key generation to end more
		// than ten rounds after the others', which is outside this scenario.)
		register(lateNode)
	}
	w.advance(period) // round 4 = the last round of the old group
	if leaver >= 0 {
		// the departing node stops at the transition
		w.advance(period - time.Second)
		w.isolate(leaver, true)
		w.advance(time.Second)
	} else {
		w.advance(period) // round 5: first round of the new group
	}
	catchup := nw.group.CatchupPeriod
	for r := 0; r < 2; r++ { // rounds 6, 7
		for el := time.Duration(0); el < period; el += catchup {
			w.advance(catchup)
		}
	}
	cr := common.CurrentRound(w.clk.Now().Unix(), period, zzGenesis)
	pub := nw.group.PublicKey.Key()
	for i := 0; i < members; i++ {
		if i == lateNode {
			zz.Tag("late_dkg_completion")
		}
		zz.Assert("chain_continues_across_the_transition_without_a_halted_round", w.head(i) == cr)
		zz.Assert("remaining_nodes_run_the_new_group", w.hs[i].crypto.GetGroup() == newGroup)
		zz.Assert("chain_info_unchanged_by_the_resharing", bytes.Equal(w.hs[i].crypto.GetInfo().Hash(), infoBefore))
	}
	for r := uint64(1); r <= cr; r++ {
		b0, err0 := w.hs[0].chain.Get(context.Background(), r)
		zz.Assert("no_gap_across_the_transition", err0 == nil && b0 != nil)
		if err0 != nil || b0 == nil {
			continue
		}
		zz.Assert("beacons_across_the_transition_verify_under_the_unchanged_key", nw.sch.VerifyBeacon(b0, pub) == nil)
		for i := 1; i < members; i++ {
			bi, err := w.hs[i].chain.Get(context.Background(), r)
			zz.Assert("no_gap_across_the_transition", err == nil && bi != nil)
			if err == nil && bi != nil {
				zz.Assert("no_fork_across_the_transition", bytes.Equal(bi.Signature, b0.Signature) && bytes.Equal(bi.PreviousSig, b0.PreviousSig))
			}
		}
	}
	for _, s := range w.sent {
		zz.Assert("no_partial_before_its_round_time", common.TimeOfRound(period, zzGenesis, s.round) <= s.atUnix)
	}
	for _, h := range w.hs {
		h.Stop(context.Background())
	}
}
