package beacon

import (
	"context"
	"fmt"
	"time"

	"github.com/drand/drand/v2/common"
	"github.com/drand/drand/v2/common/key"
	"github.com/drand/drand/v2/crypto"
	"github.com/drand/drand/v2/crypto/vault"
	"github.com/drand/drand/v2/internal/chain"
	"github.com/drand/drand/v2/internal/metrics"
	"github.com/drand/drand/v2/internal/zzfake"
	zz "github.com/drand/drand/v2/internal/zzverif"
)

var zzSchemeNames = []string{crypto.DefaultSchemeID, crypto.UnchainedSchemeID, crypto.SigsOnG1ID, crypto.ShortSigSchemeID, crypto.BN254UnchainedOnG1SchemeID}

const (
	zzGenesis = int64(1700000000)
	zzPeriodS = 30
)

// zzNet is the key material of one small network.
type zzNet struct {
	sch   *crypto.Scheme
	pairs []*key.Pair
	ep    *zzfake.Epoch
	group *key.Group
	n, t  int
}

func zzNewNet(n, t int) *zzNet {
	sch := zzfake.Scheme(zzSchemeNames[zz.Param("scheme", 0)])
	nw := &zzNet{sch: sch, n: n, t: t}
	for i := 0; i < n; i++ {
		nw.pairs = append(nw.pairs, zzfake.KeyPair(sch, fmt.Sprintf("node%d.example:%d", i, 4000+i), fmt.Sprintf("kp%d", i)))
	}
	nw.ep = zzfake.Deal(sch, n, t, "group-secret", "epoch1")
	nw.group = zzfake.Group(sch, nw.pairs, t, zzPeriodS*time.Second, zzGenesis, nw.ep, "")
	nw.group.GenesisSeed = []byte("zz-genesis-seed")
	return nw
}

// zzHeadStore is a CallbackStore whose only content is a head beacon (what Last returns).
type zzHeadStore struct {
	CallbackStore
	head *common.Beacon
	puts []*common.Beacon
	fail error
}

func (s *zzHeadStore) Last(context.Context) (*common.Beacon, error) { return s.head, nil }
func (s *zzHeadStore) Put(_ context.Context, b *common.Beacon) error {
	if s.fail != nil {
		return s.fail
	}
	s.puts = append(s.puts, b)
	s.head = b
	return nil
}

var _ chain.Store = (*zzHeadStore)(nil)

// zzHandler builds a Handler for node `own` directly (no daemon start-up), with the given head.
func zzHandler(nw *zzNet, own int, clk *zzfake.Clock, store CallbackStore, client *zzfake.Client) *Handler {
	l := zzfake.Logger()
	share := nw.ep.Share(nw.sch, own)
	conf := &Config{Public: nw.group.Nodes[own], Share: share, Group: nw.group, Clock: clk}
	v := vault.NewVault(l, nw.group, share, nw.sch)
	cs := &chainStore{CallbackStore: store, l: l, conf: conf, client: client, crypto: v,
		newPartials: make(chan partialInfo, defaultPartialChanBuffer), catchupBeacons: make(chan *common.Beacon, 1),
		beaconStoredAgg: make(chan *common.Beacon, defaultNewBeaconBuffer), ctx: context.Background()}
	tk := &ticker{clock: clk, period: nw.group.Period, genesis: nw.group.GenesisTime, newCh: make(chan channelInfo, tickerChanBacklog), stop: make(chan bool, 1)}
	cs.ticker = tk
	return &Handler{conf: conf, client: client, crypto: v, chain: cs, ticker: tk, addr: nw.group.Nodes[own].Address(), l: l, ctx: context.Background(),
		version: common.GetAppVersion(), thresholdMonitor: metrics.NewThresholdMonitor(nw.group.ID, l, nw.group.Len(), nw.group.Threshold)}
}

// zzPartial builds one incoming partial according to a symbolic kind.
//
//	0: valid partial of member j for exactly (round, prev)
//	1: valid partial of member j for another round
//	2: valid partial of member j for another previous signature
//	3: arbitrary bytes of the correct length (index and body symbolic)
//	4: wrong length
//	5: partial made with the share of member j of ANOTHER epoch (same group key, other polynomial)
func zzPartial(nw *zzNet, pfx string, round uint64, prev []byte, kinds int) (sig []byte, kind, signer int) {
	kind = zz.Choose(pfx+".kind", kinds)
	signer = zz.Choose(pfx+".signer", nw.n)
	sign := func(ep *zzfake.Epoch, r uint64, p []byte) []byte {
		msg := nw.sch.DigestBeacon(&common.Beacon{Round: r, PreviousSig: p})
		s, err := nw.sch.ThresholdScheme.Sign(ep.Shares[signer], msg)
		if err != nil {
			panic(err)
		}
		return s
	}
	switch kind {
	case 0:
		sig = sign(nw.ep, round, prev)
	case 1:
		sig = sign(nw.ep, round+1+uint64(zz.U8(pfx+".rdelta")), prev)
	case 2:
		sig = sign(nw.ep, round, append(append([]byte{}, prev...), 0x5a))
	case 3:
		sig = zz.Bytes(pfx+".raw", nw.sch.SigGroup.PointLen()+2)
	case 4:
		sig = zz.Bytes(pfx+".short", zz.Len(pfx+".shortlen", 0, 3))
	case 5:
		old := zzfake.Deal(nw.sch, nw.n, nw.t, "group-secret", "epoch0")
		sig = sign(old, round, prev)
	}
	return sig, kind, signer
}
