package beacon

import (
	"context"

	"github.com/drand/drand/v2/common"
	"github.com/drand/drand/v2/internal/zzfake"
	zz "github.com/drand/drand/v2/internal/zzverif"
	proto "github.com/drand/drand/v2/protobuf/drand"
)

func init() {
	zz.Register("ZZ_C01_partialIntake", ZZ_C01_partialIntake)
}

// ZZ_C01_partialIntake (also C03, C04, C07): one incoming partial on ProcessPartialBeacon in an arbitrary
// chain state. Whatever is handed to the aggregator must be a valid partial of another current member,
// for exactly the (round, previous signature) it claims, not beyond clock+1 and above the stored head.
func ZZ_C01_partialIntake() {
	n, t := zz.Param("n", 3), zz.Param("t", 2)
	nw := zzNewNet(n, t)
	own := zz.Choose("own", n)
	// concrete clock (round/time conversion itself is C16): 7 periods and 13 s after genesis => current round 8;
	// variant: four periods BEFORE genesis (the window between DKG completion and genesis)
	now := zzGenesis + 7*zzPeriodS + 13
	if zz.Param("clock_state", 0) == 1 {
		now = zzGenesis - 4*zzPeriodS
	}
	clk := zzfake.NewClock(now)
	nextRound, _ := common.NextRound(now, nw.group.Period, nw.group.GenesisTime)
	head := &common.Beacon{Round: zz.U64("head.round"), Signature: zz.Bytes("head.sig", 2)}
	store := &zzHeadStore{head: head}
	h := zzHandler(nw, own, clk, store, &zzfake.Client{Clock: clk})

	pr := zz.U64("p.round")
	prev := zz.Bytes("p.prev", zz.Len("p.prevlen", 0, 2))
	psig, kind, signer := zzPartial(nw, "p", pr, prev, zz.Param("kinds", 6))
	pkt := &proto.PartialBeaconPacket{Round: pr, PreviousSignature: prev, PartialSig: psig}
	if zz.Bool("p.has_metadata") {
		pkt.Metadata = &proto.Metadata{BeaconID: "default"}
	}
	_, err := h.ProcessPartialBeacon(context.Background(), pkt)

	forwarded := len(h.chain.newPartials) == 1
	zz.Assert("at_most_one_forward", len(h.chain.newPartials) <= 1)
	if forwarded {
		got := <-h.chain.newPartials
		zz.Assert("forwarded_packet_is_the_received_one", got.p == pkt)
		msg := nw.sch.DigestBeacon(&common.Beacon{Round: pr, PreviousSig: prev})
		pub := nw.group.PublicKey.PubPoly(nw.sch)
		zz.Assert("forwarded_partial_verifies_for_its_round_and_prev", nw.sch.ThresholdScheme.VerifyPartial(pub, msg, psig) == nil)
		idx, e := nw.sch.ThresholdScheme.IndexOf(psig)
		zz.Assert("forwarded_index_is_a_member", e == nil && idx >= 0 && nw.group.Node(uint32(idx)) != nil)
		zz.Assert("forwarded_not_own_index", idx != own)
		zz.Assert("forwarded_not_beyond_next_round", pr <= nextRound)
		zz.Assert("forwarded_above_head", pr > head.Round)
		zz.Assert("forwarded_without_error", err == nil)
		// (on unchained schemes the digest does not cover the previous signature: a partial "for another previous
		// signature" is a valid partial of the round)
		unchained := nw.sch.Name != zzSchemeNames[0]
		zz.Assert("forwarded_only_current_epoch_valid_kinds", kind == 0 || kind == 3 || (unchained && kind == 2))
	}
	if kind == 5 {
		zz.Assert("old_epoch_share_never_forwarded", !forwarded)
	}
	if pr > nextRound {
		zz.Assert("future_round_rejected_with_error", err != nil && !forwarded)
	}
	// enabling obligation (C05): a valid partial of another member for an acceptable round reaches the aggregator
	if kind == 0 && signer != own && pr <= nextRound && pr > head.Round {
		zz.Assert("valid_partial_is_forwarded", forwarded && err == nil)
	}
}
