package beacon

import (
	"bytes"
	"context"
	"errors"

	"github.com/drand/drand/v2/common"
	"github.com/drand/drand/v2/internal/chain"
	zz "github.com/drand/drand/v2/internal/zzverif"
)

func init() {
	zz.Register("ZZ_C02_appendStep", ZZ_C02_appendStep)
	zz.Register("ZZ_C02_linkStep", ZZ_C02_linkStep)
}

var errZZDelegate = errors.New("zz: delegate store failed")

// zzRecStore is the observation point "base store": it records every Put that reaches it.
type zzRecStore struct {
	chain.Store
	puts  []*common.Beacon
	fail  bool
	onPut func()
}

func (s *zzRecStore) Put(_ context.Context, b *common.Beacon) error {
	if s.onPut != nil {
		s.onPut()
	}
	s.puts = append(s.puts, b)
	if s.fail {
		return errZZDelegate
	}
	return nil
}

func zzBytesVar(name string, maxLen int) []byte {
	if maxLen < 0 {
		return zz.Bytes(name, -maxLen)
	}
	n := zz.Len(name+".len", 0, maxLen)
	if n == 0 && zz.Bool(name+".nil") {
		return nil
	}
	return zz.Bytes(name, n)
}

// ZZ_C02_appendStep: one Put on appendStore from an arbitrary `last` (inductive step of
// "gap-free, append-only, written once").
func ZZ_C02_appendStep() {
	n := zz.Param("siglen", -2)
	last := &common.Beacon{Round: zz.U64("last.round"), Signature: zzBytesVar("last.sig", n), PreviousSig: zzBytesVar("last.prev", n)}
	b := &common.Beacon{Round: zz.U64("b.round"), Signature: zzBytesVar("b.sig", n), PreviousSig: zzBytesVar("b.prev", n)}
	rec := &zzRecStore{fail: zz.Bool("delegate.fails")}
	a := &appendStore{Store: rec, last: last}
	rec.onPut = func() {
		held := !a.TryLock()
		zz.Assert("delegate_called_with_lock_held", held)
	}
	err := a.Put(context.Background(), b)

	zz.Assert("at_most_one_delegate_put", len(rec.puts) <= 1)
	if len(rec.puts) == 1 {
		zz.Assert("only_next_round_reaches_store", b.Round == last.Round+1)
		zz.Assert("stored_value_is_the_argument", rec.puts[0] == b)
	}
	advanced := a.last == b
	zz.Assert("last_advances_iff_delegate_succeeded", advanced == (len(rec.puts) == 1 && !rec.fail))
	if !advanced {
		zz.Assert("last_unchanged_otherwise", a.last == last)
	}
	if b.Round == last.Round {
		zz.Assert("same_round_is_an_error", err != nil)
		zz.Assert("same_round_never_written", len(rec.puts) == 0)
		same := bytes.Equal(last.Signature, b.Signature) && bytes.Equal(last.PreviousSig, b.PreviousSig)
		zz.Assert("already_stored_iff_identical", errors.Is(err, ErrBeaconAlreadyStored) == same)
	} else if b.Round != last.Round+1 {
		zz.Assert("other_rounds_rejected", err != nil)
		zz.Assert("other_rounds_never_written", len(rec.puts) == 0)
	} else {
		zz.Assert("next_round_is_forwarded", len(rec.puts) == 1)
		zz.Assert("delegate_error_is_returned", (err != nil) == rec.fail)
	}
	if err == nil {
		zz.Assert("success_means_stored", len(rec.puts) == 1 && advanced)
	}
	free := a.TryLock()
	zz.Assert("lock_released_on_every_exit", free)
}

// ZZ_C02_linkStep: one Put on schemeStore (previous-signature link / strip).
func ZZ_C02_linkStep() {
	n := zz.Param("siglen", -2)
	chained := zz.Bool("chained")
	last := &common.Beacon{Round: zz.U64("last.round"), Signature: zzBytesVar("last.sig", n), PreviousSig: zzBytesVar("last.prev", n)}
	b := &common.Beacon{Round: zz.U64("b.round"), Signature: zzBytesVar("b.sig", n), PreviousSig: zzBytesVar("b.prev", n)}
	origPrev := append([]byte(nil), b.PreviousSig...)
	rec := &zzRecStore{fail: zz.Bool("delegate.fails")}
	s := &schemeStore{Store: rec, last: last, isChained: chained}
	rec.onPut = func() {
		held := !s.TryLock()
		zz.Assert("delegate_called_with_lock_held", held)
	}
	err := s.Put(context.Background(), b)
	zz.Assert("at_most_one_delegate_put", len(rec.puts) <= 1)
	if len(rec.puts) == 1 {
		if chained {
			zz.Assert("chained_link_holds", bytes.Equal(rec.puts[0].PreviousSig, last.Signature))
			zz.Assert("chained_prev_untouched", bytes.Equal(rec.puts[0].PreviousSig, origPrev))
		} else {
			zz.Assert("unchained_prev_stripped", rec.puts[0].PreviousSig == nil)
		}
	}
	if chained && !bytes.Equal(origPrev, last.Signature) {
		zz.Assert("broken_link_rejected", err != nil && len(rec.puts) == 0)
	} else {
		zz.Assert("forwarded", len(rec.puts) == 1)
		zz.Assert("delegate_error_is_returned", (err != nil) == rec.fail)
	}
	zz.Assert("last_advances_iff_stored", (s.last == b) == (len(rec.puts) == 1 && !rec.fail))
	free := s.TryLock()
	zz.Assert("lock_released_on_every_exit", free)
}
