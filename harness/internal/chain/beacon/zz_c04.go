package beacon

import (
	"context"
	"time"

	"github.com/drand/drand/v2/common"
	"github.com/drand/drand/v2/internal/zzfake"
	zz "github.com/drand/drand/v2/internal/zzverif"
)

func init() {
	zz.Register("ZZ_C04_emission", ZZ_C04_emission)
	zz.Register("ZZ_C04_runLoop", ZZ_C04_runLoop)
}

// zzCheckEmissions: every partial that left the node (to a peer, or to its own aggregator) is for a round
// whose scheduled time is not after the node's clock at the time of sending.
func zzCheckEmissions(nw *zzNet, h *Handler, client *zzfake.Client, clk *zzfake.Clock) int {
	n := 0
	for _, s := range client.Partials {
		t := common.TimeOfRound(nw.group.Period, nw.group.GenesisTime, s.Packet.Round)
		zz.Assert("no_partial_sent_before_its_round_time", t <= s.AtUnix)
		n++
	}
	for len(h.chain.newPartials) > 0 {
		pi := <-h.chain.newPartials
		t := common.TimeOfRound(nw.group.Period, nw.group.GenesisTime, pi.p.Round)
		zz.Assert("no_own_partial_before_its_round_time", t <= clk.Now().Unix())
		n++
	}
	return n
}

// ZZ_C04_emission: one call of broadcastNextPartial for an arbitrary tick and an arbitrary stored head
// (behind, level with, or one ahead of the ticked round -- the states the node's own guards allow).
func ZZ_C04_emission() {
	nw := zzNewNet(zz.Param("n", 3), zz.Param("t", 2))
	own := 0
	// concrete clock: 7 periods + 13 s after genesis => the clock is in round 8
	now := zzGenesis + 7*zzPeriodS + 13
	clk := zzfake.NewClock(now)
	cur := common.CurrentRound(now, nw.group.Period, nw.group.GenesisTime)
	client := &zzfake.Client{Clock: clk}
	h := zzHandler(nw, own, clk, &zzHeadStore{}, client)
	// tick contract (ticker.Start): the ticked round is the round of an instant not after the clock
	tr := zz.U64("tick.round")
	zz.Assume(tr >= 1 && tr <= cur)
	tick := roundInfo{round: tr, time: common.TimeOfRound(nw.group.Period, nw.group.GenesisTime, tr)}
	// stored head: anything up to clock round + 1 (the node accepts partials up to its next round)
	hr := zz.U64("head.round")
	zz.Assume(hr <= cur+1)
	upon := &common.Beacon{Round: hr, Signature: zz.Bytes("head.sig", 2), PreviousSig: zz.Bytes("head.prev", 2)}
	if hr > tr {
		zz.Tag("state=head_ahead_of_ticked_round")
	}
	h.broadcastNextPartial(context.Background(), tick, upon)
	zz.Quiesce()
	sent := zzCheckEmissions(nw, h, client, clk)
	if hr <= tr {
		// enabling obligation (C05a): a tick produces a partial on top of the stored head for every other member
		zz.Assert("tick_emits_to_all_other_members_and_self", sent == nw.n)
	}
}

// ZZ_C04_runLoop: the real Handler.run loop as a goroutine: one tick, then a freshly appended beacon
// (catch-up branch with its CatchupPeriod sleep on the fake clock).
func ZZ_C04_runLoop() {
	nw := zzNewNet(3, 2)
	now := zzGenesis + 7*zzPeriodS + 13
	clk := zzfake.NewClock(now)
	clk.AutoAdvance = true // sleepers advance the fake clock (the catch-up delay elapses)
	cur := common.CurrentRound(now, nw.group.Period, nw.group.GenesisTime)
	client := &zzfake.Client{Clock: clk}
	hr := zz.U64("head.round")
	zz.Assume(hr <= cur+1)
	store := &zzHeadStore{head: &common.Beacon{Round: hr, Signature: zz.Bytes("head.sig", 2), PreviousSig: zz.Bytes("head.prev", 2)}}
	h := zzHandler(nw, 0, clk, store, client)
	ctx, cancel := context.WithCancel(context.Background())
	h.ctx, h.ctxCancel = ctx, cancel
	h.chain.syncm = &SyncManager{log: zzfake.Logger(), newReq: make(chan RequestInfo, 10)}
	tk := &ticker{clock: clk, period: nw.group.Period, genesis: nw.group.GenesisTime, newCh: make(chan channelInfo, tickerChanBacklog), stop: make(chan bool, 1)}
	h.ticker = tk
	restarted := zz.Bool("beacon_arrives_before_the_first_tick")
	if restarted {
		// a node restarted in the middle of a round (Catchup passes the time of the NEXT round as start time)
		// aggregates or syncs a beacon before its first tick: nothing may be signed ahead of the clock
		_, nextTime := common.NextRound(now, nw.group.Period, nw.group.GenesisTime)
		go h.run(nextTime)
		zz.Quiesce()
		br0 := zz.U64("early.round")
		zz.Assume(br0 <= cur)
		h.chain.catchupBeacons <- &common.Beacon{Round: br0, Signature: zz.Bytes("early.sig", 2), PreviousSig: zz.Bytes("early.prev", 2)}
		zz.Quiesce()
		zz.Tag("branch=catchup_before_first_tick")
		zzCheckEmissions(nw, h, client, clk)
		cancel()
		return
	}
	go h.run(now)
	zz.Quiesce()
	// deliver the tick of the clock's round through the channel run() registered
	ci := <-tk.newCh
	tr := zz.U64("tick.round")
	zz.Assume(tr >= 1 && tr <= cur)
	if hr > tr {
		zz.Tag("state=head_ahead_of_ticked_round")
	}
	ci.ch <- roundInfo{round: tr, time: common.TimeOfRound(nw.group.Period, nw.group.GenesisTime, tr)}
	zz.Quiesce()
	zzCheckEmissions(nw, h, client, clk)
	// sync is requested iff there is a gap between head and the ticked round (C05b)
	if hr+1 < tr {
		zz.Assert("gap_triggers_sync_request", len(h.chain.syncm.newReq) == 1)
	}
	// an appended beacon behind the ticked round triggers the catch-up partial after CatchupPeriod
	br := zz.U64("appended.round")
	zz.Assume(br <= cur+1)
	nb := &common.Beacon{Round: br, Signature: zz.Bytes("appended.sig", 2), PreviousSig: zz.Bytes("appended.prev", 2)}
	before := len(client.Partials)
	h.chain.catchupBeacons <- nb
	zz.Quiesce()
	zz.Tag("branch=catchup")
	zzCheckEmissions(nw, h, client, clk)
	if br < tr {
		zz.Assert("catchup_emits_next_partial", len(client.Partials) == before+nw.n-1)
		for _, s := range client.Partials[before:] {
			zz.Assert("catchup_partial_is_for_next_round", s.Packet.Round == br+1)
		}
	} else {
		zz.Assert("no_catchup_emission_when_not_behind", len(client.Partials) == before)
	}
	cancel()
}

func init() { zz.Register("ZZ_C04_tickerContract", ZZ_C04_tickerContract) }

// ZZ_C04_tickerContract: the real ticker goroutines over a fake clock that is moved by a symbolic sequence of
// steps with SUB-SECOND resolution (bursts, stalls longer than a period, steps ending just before or after a
// round boundary), starting before genesis or in the middle of a round. Every tick a subscriber receives
// names a round whose scheduled time has come on the clock, and carries the round of its own timestamp --
// the contract the emission guards in Handler.run / broadcastNextPartial rely on.
func ZZ_C04_tickerContract() {
	const periodS = 3
	period := periodS * time.Second
	starts := []time.Duration{-2 * time.Second, 700 * time.Millisecond, 10*time.Second + 2600*time.Millisecond}
	clk := zzfake.NewClockAt(time.Unix(zzGenesis, 0).Add(starts[zz.Choose("start", len(starts))]))
	tk := &ticker{clock: clk, period: period, genesis: zzGenesis, newCh: make(chan channelInfo, tickerChanBacklog), stop: make(chan bool, 1)}
	go tk.Start()
	zz.Quiesce()
	ch := tk.ChannelAt(0)
	zz.Quiesce()
	steps := []time.Duration{300 * time.Millisecond, time.Second, 2600 * time.Millisecond, period, period + 1600*time.Millisecond, 2*period + 400*time.Millisecond}
	k := zz.Param("steps", 3)
	got := 0
	for i := 0; i < k; i++ {
		clk.Advance(steps[zz.Choose("step", len(steps))])
		zz.Quiesce()
		for drained := false; !drained; {
			select {
			case info := <-ch:
				got++
				now := clk.Now()
				sched := time.Unix(common.TimeOfRound(period, zzGenesis, info.round), 0)
				zz.Assert("ticked_round_is_not_ahead_of_the_clock", !sched.After(now))
				zz.Assert("tick_carries_the_round_of_its_timestamp", info.round == common.CurrentRound(info.time, period, zzGenesis))
				zz.Assert("tick_timestamp_is_not_in_the_future", info.time <= now.Unix())
			default:
				drained = true
			}
		}
	}
	if got > 0 {
		zz.Reach("tick_received")
	}
	tk.Stop()
}
