package beacon

import (
	"bytes"
	"context"
	"fmt"
	"time"

	"github.com/drand/drand/v2/common"
	"github.com/drand/drand/v2/crypto"
	"github.com/drand/drand/v2/internal/chain/memdb"
	"github.com/drand/drand/v2/internal/net"
	"github.com/drand/drand/v2/internal/zzfake"
	zz "github.com/drand/drand/v2/internal/zzverif"
	proto "github.com/drand/drand/v2/protobuf/drand"
)

func init() {
	zz.Register("ZZ_C07_switchPoint", ZZ_C07_switchPoint)
	zz.Register("ZZ_C02_history", ZZ_C02_history)
	zz.Register("ZZ_C05_syncManagerRun", ZZ_C05_syncManagerRun)
}

// ZZ_C07_switchPoint: TransitionNewGroup registers the share/group swap; through the real callback store the
// swap happens exactly when the first round >= tRound-1 is stored, once; afterwards only the new epoch's
// partials are accepted and the new threshold is used. A misaligned transition time is refused.
func ZZ_C07_switchPoint() {
	nw := zzNewNet(4, 3)                                // old group: members 0..3, threshold 3
	clk := zzfake.NewClock(zzGenesis + 3*zzPeriodS + 1) // clock in round 4
	base := memdb.NewStore(100)
	cbs := NewCallbackStore(zzfake.Logger(), base)
	client := &zzfake.Client{Clock: clk}
	h := zzHandler(nw, 0, clk, cbs, client)
	// new epoch: same group key, new polynomial, member 3 LEAVES: group {0,1,2}, threshold 2.
	// (the polynomial is dealt for 4 indices so that a share for the departed index 3 exists under it)
	newEp := zzfake.Deal(nw.sch, 4, 2, "group-secret", "epoch2")
	newGroup := zzfake.Group(nw.sch, nw.pairs[:3], 2, nw.group.Period, zzGenesis, newEp, "")
	newGroup.GenesisSeed = nw.group.GenesisSeed
	tRound := uint64(6 + zz.Choose("transition.round_offset", 3)) // transition at round 6..8
	newGroup.TransitionTime = common.TimeOfRound(nw.group.Period, zzGenesis, tRound)
	if zz.Bool("transition.misaligned") {
		newGroup.TransitionTime += int64(1 + zz.Choose("transition.skew", zzPeriodS-1))
		// Fatalw on the (opaque) logger returns; the function must not register anything
		h.TransitionNewGroup(context.Background(), newEp.Share(nw.sch, 0), newGroup)
		c := cbs.(*callbackStore)
		zz.Assert("misaligned_transition_registers_nothing", len(c.callbacks) == 0)
		return
	}
	// the DKG may complete late: rounds up to `pre` are already stored when the transition is registered
	// (pre = tRound-1 means the last pre-transition round is already in the store)
	pre := tRound - 3 + uint64(zz.Choose("stored_before_registration", 3))
	for r := uint64(1); r <= pre; r++ {
		_ = cbs.Put(context.Background(), &common.Beacon{Round: r, Signature: []byte{byte(r)}})
	}
	zz.Quiesce()
	h.TransitionNewGroup(context.Background(), newEp.Share(nw.sch, 0), newGroup)
	switched := 0
	for r := pre + 1; r <= tRound+1; r++ {
		wasOld := h.crypto.GetGroup() == nw.group
		_ = cbs.Put(context.Background(), &common.Beacon{Round: r, Signature: []byte{byte(r)}})
		zz.Quiesce()
		isNew := h.crypto.GetGroup() == newGroup
		if wasOld && isNew {
			switched++
			// the first round stored after registration that is >= tRound-1
			first := tRound - 1
			if pre+1 > first {
				first = pre + 1
			}
			zz.Assert("switch_happens_at_last_pre_transition_round", r == first)
		}
		if r < tRound-1 {
			zz.Assert("old_group_before_transition", !isNew)
		} else {
			zz.Assert("new_group_from_transition_on", isNew)
			zz.Assert("new_threshold_in_force", h.crypto.GetGroup().Threshold == 2)
			zz.Assert("chain_info_unchanged", bytes.Equal(h.crypto.GetInfo().Hash(), zzInfoHash(nw)))
		}
	}
	zz.Assert("switched_exactly_once", switched == 1)
	if zz.Bool("then_a_second_resharing") {
		// the same running handler goes through the NEXT resharing: it must switch again
		thirdEp := zzfake.Deal(nw.sch, 4, 3, "group-secret", "epoch3")
		thirdGroup := zzfake.Group(nw.sch, nw.pairs[:3], 3, nw.group.Period, zzGenesis, thirdEp, "")
		thirdGroup.GenesisSeed = nw.group.GenesisSeed
		t2 := tRound + 4
		thirdGroup.TransitionTime = common.TimeOfRound(nw.group.Period, zzGenesis, t2)
		h.TransitionNewGroup(context.Background(), thirdEp.Share(nw.sch, 0), thirdGroup)
		for r := tRound + 2; r <= t2; r++ {
			_ = cbs.Put(context.Background(), &common.Beacon{Round: r, Signature: []byte{byte(r)}})
			zz.Quiesce()
			if r < t2-1 {
				zz.Assert("second_resharing_not_before_its_transition", h.crypto.GetGroup() == newGroup)
			} else {
				zz.Assert("second_resharing_switches_too", h.crypto.GetGroup() == thirdGroup && h.crypto.GetGroup().Threshold == 3)
			}
		}
		return
	}
	// after the switch: who may contribute is decided by the LIVE group and polynomial
	clk.Set(zzGenesis + int64(tRound+1)*zzPeriodS + 1)
	head, _ := cbs.Last(context.Background())
	r := head.Round + 1
	prev := head.Signature
	mk := func(ep *zzfake.Epoch, idx int) *proto.PartialBeaconPacket {
		msg := nw.sch.DigestBeacon(&common.Beacon{Round: r, PreviousSig: prev})
		s, _ := nw.sch.ThresholdScheme.Sign(ep.Shares[idx], msg)
		return &proto.PartialBeaconPacket{Round: r, PreviousSignature: prev, PartialSig: s}
	}
	switch zz.Choose("after_switch.sender", 4) {
	case 0:
		_, err := h.ProcessPartialBeacon(context.Background(), mk(nw.ep, 1))
		zz.Assert("old_epoch_partial_of_remaining_member_refused", err != nil && len(h.chain.newPartials) == 0)
	case 1:
		_, err := h.ProcessPartialBeacon(context.Background(), mk(nw.ep, 3))
		zz.Assert("old_epoch_partial_of_departed_member_refused", err != nil && len(h.chain.newPartials) == 0)
	case 2:
		// valid under the NEW polynomial but for the index of the member that left
		_, err := h.ProcessPartialBeacon(context.Background(), mk(newEp, 3))
		zz.Assert("departed_index_refused_even_with_new_polynomial", err != nil && len(h.chain.newPartials) == 0)
	case 3:
		_, err := h.ProcessPartialBeacon(context.Background(), mk(newEp, 1))
		zz.Assert("new_epoch_partial_accepted_after_switch", err == nil && len(h.chain.newPartials) == 1)
	}
}

func zzInfoHash(nw *zzNet) []byte {
	h := zzHandlerInfo(nw)
	return h
}

func zzHandlerInfo(nw *zzNet) []byte {
	v := zzHandler(nw, 0, zzfake.NewClock(zzGenesis), &zzHeadStore{}, &zzfake.Client{})
	return v.crypto.GetInfo().Hash()
}

// ZZ_C02_history: the full store stack, restarted at a symbolic point, then k Puts by two writers
// (aggregation path via tryAppend, sync path via store.Put) with arbitrary rounds and bytes.
// The base store sees exactly head+1, head+2, ... once each, linked when chained, never rewritten.
func ZZ_C02_history() {
	nw := zzNewNet(3, 2)
	chained := nw.sch.Name == crypto.DefaultSchemeID
	k := zz.Param("puts", 3)
	hr := zz.U64("head.round")
	zz.Assume(hr < 1<<62)
	head := &common.Beacon{Round: hr, Signature: zz.Bytes("head.sig", 2), PreviousSig: zz.Bytes("head.prev", 2)}
	base := &zzBase{}
	cbs := zzStack(nw, base, head)
	clk := zzfake.NewClock(zzGenesis + 100)
	h := zzHandler(nw, 0, clk, cbs, &zzfake.Client{Clock: clk})
	cs := h.chain
	for i := 0; i < k; i++ {
		pfx := fmt.Sprintf("put%d", i)
		b := &common.Beacon{Round: hr + uint64(zz.Choose(pfx+".delta", k+2)), Signature: zz.Bytes(pfx+".sig", 2), PreviousSig: zz.Bytes(pfx+".prev", 2)}
		last, _ := cbs.Last(context.Background())
		if zz.Bool(pfx + ".via_aggregator") {
			ok := cs.tryAppend(context.Background(), last, b)
			if ok {
				zz.Assert("aggregator_reports_success_only_for_next_round", b.Round == last.Round+1)
			}
		} else {
			_ = cbs.Put(context.Background(), b)
		}
	}
	prevB := head
	for i, b := range base.puts {
		zz.Assert("history_is_gap_free_from_restart_point", b.Round == hr+uint64(i)+1)
		if chained {
			zz.Assert("history_is_linked", bytes.Equal(b.PreviousSig, prevB.Signature))
		} else {
			zz.Assert("unchained_history_has_no_prev", b.PreviousSig == nil)
		}
		prevB = b
	}
	seen := map[uint64]bool{}
	for _, b := range base.puts {
		zz.Assert("no_round_written_twice", !seen[b.Round])
		seen[b.Round] = true
	}
}

// ZZ_C05_syncManagerRun: the manager loop. A request above the head starts a sync when none is running or
// none progressed for factor*period; a request at or below the head starts nothing.
func ZZ_C05_syncManagerRun() {
	nw := zzNewNet(3, 2)
	head := &common.Beacon{Round: 5, Signature: []byte{5}}
	base := &zzBase{}
	cbs := zzStack(nw, base, head)
	clk := zzfake.NewClock(zzGenesis + 1000)
	client := &zzfake.Client{Clock: clk}
	calls := 0
	client.SyncFn = func(ctx context.Context, p net.Peer, in *proto.SyncRequest) (chan *proto.BeaconPacket, error) {
		calls++
		return make(chan *proto.BeaconPacket), nil // a peer that never sends anything: the sync stays in progress
	}
	sm := zzSyncManager(nw, cbs, base, client, clk, "self.example:1")
	ctx, cancel := context.WithCancel(context.Background())
	sm.ctx, sm.ctxCancel = ctx, cancel
	go sm.Run()
	zz.Quiesce()
	peers := []net.Peer{&zzPeer{"peer0.example:1"}}
	upTo := uint64(zz.Choose("request.upto", 9)) // 0 (follow) .. 8
	sm.SendSyncRequest(context.Background(), upTo, peers)
	zz.Quiesce()
	if upTo == 0 || upTo > head.Round {
		zz.Assert("request_above_head_starts_a_sync", calls == 1)
	} else {
		zz.Assert("request_not_above_head_starts_nothing", calls == 0)
	}
	first := calls
	// a second request while the first sync is in progress: restarted only after factor*period without progress
	waited := time.Duration(zz.Choose("waited_periods", 4)) * nw.group.Period
	clk.Advance(waited)
	sm.SendSyncRequest(context.Background(), 8, peers)
	zz.Quiesce()
	if first == 1 {
		if waited > time.Duration(syncExpiryFactor)*nw.group.Period {
			zz.Assert("stuck_sync_is_restarted", calls == 2)
		} else {
			zz.Assert("running_sync_is_not_restarted_early", calls == 1)
		}
	}
	cancel()
}

func init() { zz.Register("ZZ_C07_aggregateAcrossTransition", ZZ_C07_aggregateAcrossTransition) }

// ZZ_C07_aggregateAcrossTransition (also C03): a node that stays through a resharing which CHANGES THE
// THRESHOLD, wired as newChainStore wires it (store stack, "chainstore" callback, running aggregator), then
// TransitionNewGroup. The last pre-transition round is stored, the vault switches, and m partials of the new
// epoch arrive for the first round of the new group (through the real intake; the node's own through
// NewValidPartial). The chain continues with exactly the new threshold: m >= t_new partials produce the
// verifiable beacon of that round, fewer produce nothing.
func ZZ_C07_aggregateAcrossTransition() {
	n := 4
	tOld, tNew := zz.Param("t_old", 3), zz.Param("t_new", 4)
	nw := zzNewNet(n, tOld)
	tRound := uint64(6)
	clk := zzfake.NewClock(zzGenesis + int64(tRound-2)*zzPeriodS + 1) // clock in round tRound-1
	head := &common.Beacon{Round: tRound - 2, Signature: []byte{0x11, 0x22}}
	base := &zzBase{}
	cbs := zzStack(nw, base, head)
	client := &zzfake.Client{Clock: clk}
	h := zzHandler(nw, 0, clk, cbs, client)
	cs := h.chain
	ctx, cancel := context.WithCancel(context.Background())
	cs.ctx, cs.ctxCancel = ctx, cancel
	cs.syncm = &SyncManager{log: zzfake.Logger(), newReq: make(chan RequestInfo, 10)}
	cbs.AddCallback("chainstore", func(b *common.Beacon, closed bool) {
		if closed {
			return
		}
		cs.beaconStoredAgg <- b
	})
	go cs.runAggregator()
	// the aggregator has already seen traffic of the old epoch (so that anything it reads once is read by now)
	warm := &proto.PartialBeaconPacket{Round: tRound - 1, PreviousSignature: head.Signature}
	msg0 := nw.sch.DigestBeacon(&common.Beacon{Round: tRound - 1, PreviousSig: head.Signature})
	warm.PartialSig, _ = nw.sch.ThresholdScheme.Sign(nw.ep.Shares[1], msg0)
	_, werr := h.ProcessPartialBeacon(context.Background(), warm)
	zz.Quiesce()
	zz.Assert("old_epoch_partial_accepted_before_the_transition", werr == nil)

	newEp := zzfake.Deal(nw.sch, n, tNew, "group-secret", "epoch2")
	newGroup := zzfake.Group(nw.sch, nw.pairs, tNew, nw.group.Period, zzGenesis, newEp, "")
	newGroup.GenesisSeed = nw.group.GenesisSeed
	newGroup.TransitionTime = common.TimeOfRound(nw.group.Period, zzGenesis, tRound)
	h.TransitionNewGroup(context.Background(), newEp.Share(nw.sch, 0), newGroup)

	// the last round of the old group is stored (by sync or by aggregation elsewhere): the vault switches
	lastOld := &common.Beacon{Round: tRound - 1, PreviousSig: head.Signature, Signature: []byte{0x33, 0x44}}
	zz.Assert("last_pre_transition_round_is_stored", cbs.Put(context.Background(), lastOld) == nil)
	zz.Quiesce()
	zz.Assert("vault_switched_to_the_new_group", h.crypto.GetGroup() == newGroup)
	nputs := len(base.puts)

	// round tRound: m distinct members of the NEW epoch contribute
	clk.Set(zzGenesis + int64(tRound-1)*zzPeriodS + 1)
	m := tNew - 1 + zz.Choose("contributors.at_threshold", 2) // t_new-1 or t_new
	if zz.Param("t_old", 3) < tNew && zz.Bool("contributors.old_threshold_only") {
		m = tOld // exactly the OLD threshold (below the new one)
	}
	msg := nw.sch.DigestBeacon(&common.Beacon{Round: tRound, PreviousSig: lastOld.Signature})
	order := []int{1, 2, 3, 0}
	for i := 0; i < m && i < n; i++ {
		idx := order[i]
		ps, err := nw.sch.ThresholdScheme.Sign(newEp.Shares[idx], msg)
		if err != nil {
			panic(err)
		}
		pkt := &proto.PartialBeaconPacket{Round: tRound, PreviousSignature: lastOld.Signature, PartialSig: ps}
		if idx == 0 {
			cs.NewValidPartial(context.Background(), h.addr, pkt) // the node's own partial, as broadcastNextPartial hands it over
		} else {
			_, err := h.ProcessPartialBeacon(context.Background(), pkt)
			zz.Assert("new_epoch_partial_accepted_after_the_transition", err == nil)
		}
		zz.Quiesce()
	}
	zz.Quiesce()
	produced := len(base.puts) > nputs
	if m >= tNew {
		zz.Assert("chain_continues_with_a_threshold_of_the_new_group", produced && base.puts[len(base.puts)-1].Round == tRound)
	} else {
		zz.Assert("no_beacon_below_the_new_threshold", !produced)
	}
	if produced {
		b := base.puts[len(base.puts)-1]
		zz.Assert("beacon_across_the_transition_verifies_under_the_unchanged_key", nw.sch.VerifyBeacon(b, nw.group.PublicKey.Key()) == nil)
	}
	cancel()
}

func init() { zz.Register("ZZ_C05_stuckSyncRecovers", ZZ_C05_stuckSyncRecovers) }

// ZZ_C05_stuckSyncRecovers: the manager loop behind a lagging node. One of its peers ACCEPTS the sync stream and
// then never sends anything (a black-holing partition, a one-way link); another one is healthy and ahead. A new
// request arrives with every tick. A sync that made no progress for factor*period is cancelled and restarted,
// and the restarts get past the silent peer: within a few of them the node has caught up. The order in which a
// sync tries its peers comes from the random source, taken here as a FAIR sequence (the j-th draw is the
// identity rotated by j; param rotating_peer_order): with a fair source no peer can be first forever.
func ZZ_C05_stuckSyncRecovers() {
	nw := zzNewNet(3, 2)
	head := &common.Beacon{Round: 5, Signature: []byte{5, 5}}
	base := &zzBase{}
	cbs := zzStack(nw, base, head)
	clk := zzfake.NewClock(zzGenesis + 1000)
	good := zzHonestChain(nw, head, 3)
	silent := zz.Choose("silent_peer", 2)
	addrs := []string{"peer0.example:1", "peer1.example:1"}
	client := &zzfake.Client{Clock: clk}
	asked := []int{0, 0}
	client.SyncFn = func(ctx context.Context, p net.Peer, in *proto.SyncRequest) (chan *proto.BeaconPacket, error) {
		i := 0
		if p.Address() == addrs[1] {
			i = 1
		}
		asked[i]++
		if i == silent {
			return make(chan *proto.BeaconPacket), nil // accepts the stream, sends nothing, never closes it
		}
		ch := make(chan *proto.BeaconPacket, len(good))
		for _, b := range good {
			if b.Round >= in.GetFromRound() {
				ch <- &proto.BeaconPacket{Round: b.Round, PreviousSignature: b.PreviousSig, Signature: b.Signature, Metadata: &proto.Metadata{BeaconID: nw.group.ID}}
			}
		}
		close(ch)
		return ch, nil
	}
	sm := zzSyncManager(nw, cbs, base, client, clk, "self.example:1")
	ctx, cancel := context.WithCancel(context.Background())
	sm.ctx, sm.ctxCancel = ctx, cancel
	go sm.Run()
	zz.Quiesce()
	peers := []net.Peer{&zzPeer{addrs[0]}, &zzPeer{addrs[1]}}
	target := good[len(good)-1].Round
	cycles := zz.Param("cycles", 4)
	for c := 0; c < cycles; c++ {
		sm.SendSyncRequest(context.Background(), target, peers)
		zz.Quiesce()
		// nothing moves for longer than the expiry of a sync
		clk.Advance(time.Duration(syncExpiryFactor+1) * nw.group.Period)
		zz.Quiesce()
	}
	last, err := cbs.Last(context.Background())
	zz.Assert("stuck_sync_gets_past_the_silent_peer", err == nil && last != nil && last.Round == target)
	zz.Assert("the_healthy_peer_was_asked", asked[1-silent] >= 1)
	cancel()
	zz.Quiesce()
}
