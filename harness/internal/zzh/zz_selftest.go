package zzh

import (
	"bytes"
	"context"
	"crypto/sha256"
	"encoding/binary"
	"encoding/hex"
	"fmt"
	"math"
	"sort"
	"strings"
	"time"

	"github.com/drand/drand/v2/common"
	"github.com/drand/drand/v2/common/key"
	"github.com/drand/drand/v2/crypto"
	mchain "github.com/drand/drand/v2/internal/chain"
	"github.com/drand/drand/v2/internal/chain/memdb"
	zz "github.com/drand/drand/v2/internal/zzverif"
)

func init() { zz.Register("ZZ_Self_hash", ZZ_Self_hash) }

// ZZ_Self_hash: engine self-test of the injective-hash encoding.
func ZZ_Self_hash() {
	a, b := zz.Bytes("a", 2), zz.Bytes("b", 2)
	h := func(x []byte) []byte { s := sha256.New(); s.Write(x); s.Write([]byte{1, 2}); return s.Sum(nil) }
	ha, hb := h(a), h(b)
	zz.Assert("congruence", !bytes.Equal(a, b) || bytes.Equal(ha, hb))
	zz.Assert("injective", !bytes.Equal(ha, hb) || bytes.Equal(a, b))
	hha, hhb := h(append([]byte{7}, ha...)), h(append([]byte{7}, hb...))
	zz.Assert("congruence2", !bytes.Equal(a, b) || bytes.Equal(hha, hhb))
	zz.Assert("injective2", !bytes.Equal(hha, hhb) || bytes.Equal(a, b))
	if bytes.Equal(a, b) {
		zz.Assert("congruence_on_path", bytes.Equal(hha, hhb))
	}
}

func init() { zz.Register("ZZ_Self_translator", ZZ_Self_translator) }

// zzSelfExpected holds, per group, what the NATIVELY COMPILED code computes for the concrete inputs below (the
// repo's own test vectors for the time functions among them). The engine must compute the same: a difference is
// an interpreter bug, caught here rather than as a wrong verdict elsewhere. Regenerate with
// ZZVERIF_TRACE=1 ./check SELF --replay <any file naming ZZ_Self_translator> after a deliberate change.
var zzSelfExpected = map[string]string{
	"time": "2 1002 1;2 1002 1;3 1004 2;3 1004 2;1 1000 1;3 1700000098 2;4 1700000147 3;36597206559 1099511627790 36597206558;1234569 1632468090 1234568;1234568 1632468060 1234567;262146 1125904201547775 262145;1;1000;1027;9223371968135299071;9223371968135299071;9223371968135299071;9223371968135299071;9223371968135299071;9223371968135299071;1745431020",
	"bytes": "00000000000000000000000000000102fffffffffffffffe;123456789;9f64a747e1b97f131fabb6b447296c9b6f0201e79fb3c5356e6c77e89b6a806a;cf63f78cd021a2c2fa87f997c7bd1d44b77bd75db98511110edc6b5695db1aa0;[0 255 16 171 205] true;true;-1 1 true;0000001e000000005f18588a3412",
	"misc": "true true falsedefaulttrue false;1;1;2;2;3;3;4;4;5;5;6;90 4294967295 3µs 1.5;1700000090 true 5.5s",
	"lang": "[1 2 2 5 7 9];[node1 node10 node2];3 1 3 3 0;4 -2147483648 2 -3 -1 2 1027",
	"memdb": "9 25 true 9;3;5;9;12;21;22;23;24;25;true;true",
}

func zzSelfGroups() map[string]string {
	out := map[string]string{}
	var sb []string
	add := func(v ...interface{}) { sb = append(sb, fmt.Sprint(v...)) }
	flush := func(name string) { out[name] = strings.Join(sb, ";"); sb = nil }

	// round/time conversion: TestChainNextRound and TestTimeOverflow vectors, and boundary instants
	for _, v := range [][3]int64{{1000, 2, 1000}, {1001, 2, 1000}, {1002, 2, 1000}, {1003, 2, 1000}, {999, 2, 1000}, {1700000049, 49, 1700000000}, {1700000098, 49, 1700000000},
		{1 << 40, 30, 1595431050}, {1595431050 + 30*1234567, 30, 1595431050}, {1595431050 + 30*1234567 - 1, 30, 1595431050}, {1 << 50, 4294967295, 0}} {
		r, t := common.NextRound(v[0], time.Duration(v[1])*time.Second, v[2])
		add(r, t, common.CurrentRound(v[0], time.Duration(v[1])*time.Second, v[2]))
	}
	for _, v := range [][3]uint64{{1, 1, 0}, {3, 1000, 1}, {3, 1000, 10}, {1, 0, math.MaxUint64}, {1, 0, math.MaxUint64 >> 1}, {3, 0, math.MaxUint64 >> 3}, {4294967295, 1 << 32, 2147483650}, {2, 5, 1 << 62}, {1 << 31, 7, 1 << 31}, {30, 1595431050, 5000000}} {
		add(common.TimeOfRound(time.Duration(v[0])*time.Second, int64(v[1]), v[2]))
	}
	flush("time")

	// byte-level helpers
	add(fmt.Sprintf("%x", mchain.RoundToBytes(0)), fmt.Sprintf("%x", mchain.RoundToBytes(258)), fmt.Sprintf("%x", mchain.RoundToBytes(math.MaxUint64-1)))
	add(mchain.BytesToRound(mchain.RoundToBytes(123456789)))
	add(fmt.Sprintf("%x", crypto.RandomnessFromSignature([]byte{1, 2, 3, 4})))
	add(fmt.Sprintf("%x", sha256.Sum256([]byte("drand"))))
	hx, err := hex.DecodeString("00ff10AbCd")
	add(hx, err == nil)
	_, err = hex.DecodeString("0g")
	add(err != nil)
	add(bytes.Compare([]byte{1, 2}, []byte{1, 3}), bytes.Compare([]byte{2}, []byte{1, 9}), bytes.Equal(nil, []byte{}))
	var buf bytes.Buffer
	_ = binary.Write(&buf, binary.BigEndian, uint32(30))
	_ = binary.Write(&buf, binary.BigEndian, int64(1595431050))
	_ = binary.Write(&buf, binary.LittleEndian, uint16(0x1234))
	add(fmt.Sprintf("%x", buf.Bytes()))
	flush("bytes")

	// ids, thresholds, durations
	add(common.IsDefaultBeaconID(""), common.IsDefaultBeaconID("default"), common.IsDefaultBeaconID("x"), common.GetCanonicalBeaconID(""), common.CompareBeaconIDs("", "default"), common.CompareBeaconIDs("a", "default"))
	for n := 0; n <= 10; n++ {
		add(key.MinimumT(n))
	}
	add((90 * time.Second).Seconds(), uint32((1<<32-1)*time.Second/time.Second), time.Duration(3)*time.Second/time.Millisecond, (1500 * time.Millisecond).Seconds())
	add(time.Unix(1700000000, 0).Add(90*time.Second).Unix(), time.Unix(1700000000, 5).Before(time.Unix(1700000000, 6)), time.Unix(10, 0).Sub(time.Unix(4, 500000000)))
	flush("misc")

	// sorting and maps
	xs := []int{5, 2, 9, 2, 7, 1}
	sort.Slice(xs, func(i, j int) bool { return xs[i] < xs[j] })
	add(xs)
	ss := []string{"node2", "node10", "node1"}
	sort.Strings(ss)
	add(ss)
	m := map[string]int{}
	for i, s := range ss {
		m[s] += i + 1
		m["all"] += i
	}
	delete(m, "node10")
	add(len(m), m["node1"], m["node2"], m["all"], m["absent"])
	var u8 uint8 = 250
	u8 += 10
	var i32 int32 = math.MaxInt32
	i32++
	add(u8, i32, uint64(1)<<63>>62, int64(-7)/2, int64(-7)%2, uint64(7)&^5, 1<<10|3)
	flush("lang")

	// the in-memory ring over a concrete operation sequence
	st := memdb.NewStore(10)
	ctx := context.Background()
	for _, r := range []uint64{5, 3, 9, 3, 12, 1, 20, 21, 22, 23, 24, 25, 2} {
		_ = st.Put(ctx, &common.Beacon{Round: r, Signature: []byte{byte(r)}})
	}
	_ = st.Del(ctx, 20)
	n, _ := st.Len(ctx)
	last, _ := st.Last(ctx)
	_, e1 := st.Get(ctx, 1)
	b9, _ := st.Get(ctx, 9)
	add(n, last.Round, e1 != nil, b9.Round)
	_ = st.Cursor(ctx, func(ctx context.Context, c mchain.Cursor) error {
		for b, err := c.First(ctx); err == nil && b != nil; b, err = c.Next(ctx) {
			add(b.Round)
		}
		b, err := c.Seek(ctx, 22)
		add(b != nil && err == nil && b.Round == 22)
		_, err = c.Seek(ctx, 20)
		add(err != nil)
		return nil
	})
	flush("memdb")
	return out
}

// ZZ_Self_translator: translator validation on concrete inputs (no symbolic input at all).
func ZZ_Self_translator() {
	got := zzSelfGroups()
	for _, name := range []string{"time", "bytes", "misc", "lang", "memdb"} {
		zz.Trace("SELF %s = %q", name, got[name])
	}
	for _, name := range []string{"time", "bytes", "misc", "lang", "memdb"} {
		zz.Assert("translator_agrees_with_native_"+name, got[name] == zzSelfExpected[name])
	}
}
