package zzh

import (
	"bytes"
	"crypto/sha256"

	zz "github.com/drand/drand/v2/internal/zzverif"
)

func init() { zz.Register("ZZ_Self_hash", ZZ_Self_hash) }

// ZZ_Self_hash: engine self-test of the injective-hash encoding.
func ZZ_Self_hash() {
	a, b := zz.Bytes("a", 2), zz.Bytes("b", 2)
	h := func(x []byte) []byte { s := sha256.New(); s.Write(x); s.Write([]byte{1, 2}); return s.Sum(nil) }
	ha, hb := h(a), h(b)
	zz.Assert("congruence", !bytes.Equal(a, b) || bytes.Equal(ha, hb))
	zz.Assert("injective", !bytes.Equal(ha, hb) || bytes.Equal(a, b))
	hha, hhb := h(append([]byte{7}, ha...)), h(append([]byte{7}, hb...))
	zz.Assert("congruence2", !bytes.Equal(a, b) || bytes.Equal(hha, hhb))
	zz.Assert("injective2", !bytes.Equal(hha, hhb) || bytes.Equal(a, b))
	if bytes.Equal(a, b) {
		zz.Assert("congruence_on_path", bytes.Equal(hha, hhb))
	}
}
