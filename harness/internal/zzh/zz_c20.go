package zzh

import (
	"bytes"
	"fmt"
	"time"

	"github.com/drand/drand/v2/common"
	"github.com/drand/drand/v2/common/key"
	"github.com/drand/drand/v2/crypto"
	"github.com/drand/drand/v2/internal/zzfake"
	zz "github.com/drand/drand/v2/internal/zzverif"
	"github.com/drand/kyber/share/dkg"
)

func init() {
	zz.Register("ZZ_C20_groupRoundTrip", ZZ_C20_groupRoundTrip)
	zz.Register("ZZ_C20_groupDecodeRejects", ZZ_C20_groupDecodeRejects)
	zz.Register("ZZ_C20_keysRoundTrip", ZZ_C20_keysRoundTrip)
}

var zzPeriods = []time.Duration{time.Second, 30 * time.Second, time.Hour + time.Minute + time.Second, (1<<32 - 1) * time.Second}

// zzValidGroup: a group "the system can produce": whole-second period, genesis != 0, valid threshold,
// number of coefficients = threshold when a key is present; everything else symbolic.
func zzValidGroup(sch *crypto.Scheme, pfx string, n int, withKey, withSeed bool, idLen int) *key.Group {
	g := &key.Group{Scheme: sch}
	for i := 0; i < n; i++ {
		id := &key.Identity{Key: zzfake.PointFromBytes(sch, zz.Bytes(fmt.Sprintf("%s.node%d.key", pfx, i), 2)),
			Addr: fmt.Sprintf("node%d.example:%d", i, 8000+i), Scheme: sch,
			Signature: zz.Bytes(fmt.Sprintf("%s.node%d.sig", pfx, i), zz.Param("siglen", 2))}
		g.Nodes = append(g.Nodes, &key.Node{Identity: id, Index: zz.U32(fmt.Sprintf("%s.node%d.index", pfx, i))})
	}
	// every member has its own index. The listing order is arbitrary when the group carries its genesis seed; a
	// group WITHOUT a stored seed only exists between its construction and the first Hash() (dkg.asGroup stores
	// Hash() as the seed at once), and Hash() sorts the members by index in place: such a group is listed in
	// index order, as every group the system produces is. (An unsorted seedless group does not round-trip under
	// Group.Equal, which compares members by position: encoding it sorts the original but not the listing.)
	for i := 0; i < n; i++ {
		for j := i + 1; j < n; j++ {
			if withSeed {
				zz.Assume(g.Nodes[i].Index != g.Nodes[j].Index)
			} else {
				zz.Assume(g.Nodes[i].Index < g.Nodes[j].Index)
			}
		}
	}
	thr := int(zz.U32(pfx + ".threshold"))
	zz.Assume(thr >= key.MinimumT(n) && thr <= n)
	thr = int(zz.Concretize(uint64(thr)))
	g.Threshold = thr
	g.Period = zzPeriods[zz.Choose(pfx+".period", len(zzPeriods))]
	g.CatchupPeriod = zzPeriods[zz.Choose(pfx+".catchup", len(zzPeriods))]
	if zz.Bool(pfx + ".catchup0") {
		g.CatchupPeriod = 0
	}
	g.GenesisTime = zz.I64(pfx + ".genesis")
	zz.Assume(g.GenesisTime > 0)
	g.TransitionTime = zz.I64(pfx + ".transition")
	zz.Assume(g.TransitionTime >= 0)
	if withSeed {
		g.GenesisSeed = zz.Bytes(pfx+".seed", 2)
	}
	if withKey {
		g.PublicKey = &key.DistPublic{}
		for i := 0; i < thr; i++ {
			g.PublicKey.Coefficients = append(g.PublicKey.Coefficients, zzfake.PointFromBytes(sch, zz.Bytes(fmt.Sprintf("%s.coef%d", pfx, i), 2)))
		}
	}
	g.ID = zz.String(pfx+".id", idLen)
	return g
}

func zzGroupSame(tag string, g, g2 *key.Group) {
	zz.Assert(tag+"_threshold", g2.Threshold == g.Threshold)
	zz.Assert(tag+"_period", g2.Period == g.Period)
	zz.Assert(tag+"_catchup_period", g2.CatchupPeriod == g.CatchupPeriod)
	zz.Assert(tag+"_genesis_time", g2.GenesisTime == g.GenesisTime)
	zz.Assert(tag+"_transition_time", g2.TransitionTime == g.TransitionTime)
	zz.Assert(tag+"_genesis_seed", bytes.Equal(g2.GetGenesisSeed(), g.GetGenesisSeed()))
	zz.Assert(tag+"_id", common.CompareBeaconIDs(g2.ID, g.ID))
	zz.Assert(tag+"_scheme", g2.Scheme != nil && g2.Scheme.Name == g.Scheme.Name)
	zz.Assert(tag+"_node_count", len(g2.Nodes) == len(g.Nodes))
	// a group is a map from index to member: the order of the slice carries no meaning (Group.Hash sorts it in
	// place, also while a group without a stored seed is being encoded), so members are matched by index
	for _, nd := range g.Nodes {
		var m *key.Node
		for _, c := range g2.Nodes {
			if c.Index == nd.Index {
				m = c
				break
			}
		}
		zz.Assert(tag+"_node_index", m != nil)
		if m == nil {
			continue
		}
		zz.Assert(tag+"_node_key", m.Key.Equal(nd.Key))
		zz.Assert(tag+"_node_addr", m.Addr == nd.Addr)
		zz.Assert(tag+"_node_sig", bytes.Equal(m.Signature, nd.Signature))
	}
	zz.Assert(tag+"_pubkey_presence", (g2.PublicKey == nil) == (g.PublicKey == nil))
	if g.PublicKey != nil && g2.PublicKey != nil {
		zz.Assert(tag+"_pubkey", g2.PublicKey.Equal(g.PublicKey))
	}
	zz.Assert(tag+"_equal_method", g2.Equal(g))
	zz.Assert(tag+"_same_hash", bytes.Equal(g2.Hash(), g.Hash()))
}

// ZZ_C20_groupRoundTrip: Group -> TOML mirror -> Group and Group -> protobuf mirror -> Group.
func ZZ_C20_groupRoundTrip() {
	sch := zzSchemeParam()
	n := zz.Param("n", 2)
	g := zzValidGroup(sch, "g", n, zz.Param("withkey", 1) == 1, zz.Param("withseed", 1) == 1, zz.Param("idlen", 2))
	// TOML
	gt := g.TOML()
	g2 := new(key.Group)
	err := g2.FromTOML(gt)
	zz.Assert("toml_decodes", err == nil)
	if err == nil {
		zzGroupSame("toml", g, g2)
	}
	// protobuf
	pb := g.ToProto(common.GetAppVersion())
	g3, err := key.GroupFromProto(pb, nil)
	zz.Assert("proto_decodes", err == nil)
	if err == nil {
		zzGroupSame("proto", g, g3)
	}
	g4, err := key.GroupFromProto(pb, sch)
	zz.Assert("proto_decodes_with_target_scheme", err == nil && g4 != nil)
}

// ZZ_C20_groupDecodeRejects: out-of-range thresholds and unknown schemes are refused by both decoders.
func ZZ_C20_groupDecodeRejects() {
	sch := zzSchemeParam()
	n := zz.Param("n", 2)
	g := zzValidGroup(sch, "g", n, false, true, 2)
	bad := int(zz.U32("bad.threshold"))
	zz.Assume(bad < key.MinimumT(n) || bad > n)
	zz.Assume(bad >= 0)

	gt := g.TOML().(*key.GroupTOML)
	gt.Threshold = bad
	zz.Tag("toml")
	err := new(key.Group).FromTOML(gt)
	zz.Assert("toml_rejects_threshold_out_of_range", err != nil)

	pb := g.ToProto(common.GetAppVersion())
	pb.Threshold = uint32(bad)
	if bad > n {
		zz.Tag("proto,threshold>n")
	} else {
		zz.Tag("proto,threshold<min")
	}
	_, err = key.GroupFromProto(pb, nil)
	zz.Assert("proto_rejects_threshold_out_of_range", err != nil)

	zz.Tag("")
	gt2 := g.TOML().(*key.GroupTOML)
	gt2.SchemeID = "zz-no-such-scheme"
	zz.Assert("toml_rejects_unknown_scheme", new(key.Group).FromTOML(gt2) != nil)
	pb2 := g.ToProto(common.GetAppVersion())
	pb2.SchemeID = "zz-no-such-scheme"
	_, err = key.GroupFromProto(pb2, nil)
	zz.Assert("proto_rejects_unknown_scheme", err != nil)
}

// ZZ_C20_keysRoundTrip: key pair, identity, node, share, distributed public key mirrors.
func ZZ_C20_keysRoundTrip() {
	sch := zzSchemeParam()
	pair := zzfake.KeyPair(sch, "node.example:8080", "c20-pair")
	// the private scalar is arbitrary (its encoded form may start with zero bytes)
	pair.Key = sch.KeyGroup.Scalar().SetBytes(zz.Bytes("pair.secret", sch.KeyGroup.ScalarLen()))
	pair.Public.Key = sch.KeyGroup.Point().Mul(pair.Key, nil)
	if err := pair.SelfSign(); err != nil {
		panic(err)
	}
	// Pair
	p2 := new(key.Pair)
	zz.Assert("pair_decodes", p2.FromTOML(pair.TOML()) == nil)
	zz.Assert("pair_key", p2.Key != nil && p2.Key.Equal(pair.Key))
	zz.Assert("pair_scheme", p2.Public != nil && p2.Public.Scheme.Name == sch.Name)
	// Identity (TOML + proto) with symbolic signature bytes
	id := &key.Identity{Key: zzfake.PointFromBytes(sch, zz.Bytes("id.key", 2)), Addr: "a.example:1", Scheme: sch, Signature: zz.Bytes("id.sig", zz.Len("id.siglen", 0, 2))}
	id2 := new(key.Identity)
	zz.Assert("identity_toml_decodes", id2.FromTOML(id.TOML()) == nil)
	zz.Assert("identity_toml_same", id2.Equal(id) && bytes.Equal(id2.Signature, id.Signature) && id2.Scheme.Name == sch.Name)
	id3, err := key.IdentityFromProto(id.ToProto(), sch)
	zz.Assert("identity_proto_decodes", err == nil)
	if err == nil {
		zz.Assert("identity_proto_same", id3.Equal(id) && bytes.Equal(id3.Signature, id.Signature))
		zz.Assert("identity_hash_same", bytes.Equal(id3.Hash(), id.Hash()))
	}
	// Node
	nd := &key.Node{Identity: id, Index: zz.U32("node.index")}
	nd2 := new(key.Node)
	zz.Assert("node_toml_decodes", nd2.FromTOML(nd.TOML()) == nil)
	zz.Assert("node_toml_same", nd2.Equal(nd) && bytes.Equal(nd2.Hash(), nd.Hash()))
	// Share + DistPublic
	n, t := zz.Param("n", 2), zz.Param("t", 2)
	ep := zzfake.Deal(sch, n, t, "c20-secret", "c20-poly")
	idx := zz.Choose("share.index", n)
	sh := ep.Share(sch, idx)
	sh.Share.V = sch.KeyGroup.Scalar().SetBytes(zz.Bytes("share.value", sch.KeyGroup.ScalarLen())) // arbitrary share value
	sh2 := new(key.Share)
	zz.Assert("share_decodes", sh2.FromTOML(sh.TOML()) == nil)
	zz.Assert("share_index", sh2.Share != nil && sh2.Share.I == sh.Share.I)
	zz.Assert("share_value", sh2.Share.V.Equal(sh.Share.V))
	zz.Assert("share_commits", sh2.Public().Equal(sh.Public()))
	zz.Assert("share_scheme", sh2.Scheme.Name == sch.Name)
	dp := sh.Public()
	dp2 := new(key.DistPublic)
	zz.Assert("distpublic_decodes", dp2.FromTOML(sch, dp.TOML()) == nil)
	zz.Assert("distpublic_same", dp2.Equal(dp) && bytes.Equal(dp2.Hash(), dp.Hash()))
	_ = dkg.MinimumT
}

func init() { zz.Register("ZZ_C20_fileStore", ZZ_C20_fileStore) }

// ZZ_C20_fileStore: what a node reloads from its key folder is what was written LAST, also when a file is
// rewritten with different (shorter or longer) content: group file and share across two epochs.
func ZZ_C20_fileStore() {
	sch := zzSchemeParam()
	dir := zz.TempDir("c20store")
	st := key.NewFileStore(dir, "default")
	n1, n2 := zz.Param("n_first", 3), zz.Param("n_second", 2)
	mk := func(n int, tag string) (*key.Group, *key.Share) {
		var pairs []*key.Pair
		for i := 0; i < n; i++ {
			pairs = append(pairs, zzfake.KeyPair(sch, fmt.Sprintf("node%d.example:%d", i, 5000+i), fmt.Sprintf("c20fs-%d", i)))
		}
		t := key.MinimumT(n)
		ep := zzfake.Deal(sch, n, t, "c20fs-secret", "c20fs-"+tag)
		g := zzfake.Group(sch, pairs, t, 30*time.Second, 1700000000, ep, "")
		g.GenesisSeed = []byte("seed")
		return g, ep.Share(sch, 0)
	}
	g1, s1 := mk(n1, "epoch1")
	g2, s2 := mk(n2, "epoch2")
	g2.TransitionTime = 1700003000
	zz.Assert("save_group_1", st.SaveGroup(g1) == nil)
	zz.Assert("save_share_1", st.SaveShare(s1) == nil)
	l1, err := st.LoadGroup()
	zz.Assert("first_group_reloads", err == nil && l1 != nil && l1.Equal(g1))
	zz.Assert("save_group_2", st.SaveGroup(g2) == nil)
	zz.Assert("save_share_2", st.SaveShare(s2) == nil)
	l2, err := st.LoadGroup()
	zz.Assert("rewritten_group_reloads", err == nil && l2 != nil)
	if err == nil && l2 != nil {
		zz.Assert("rewritten_group_is_the_last_written", l2.Equal(g2) && bytes.Equal(l2.Hash(), g2.Hash()))
	}
	ls, err := st.LoadShare()
	zz.Assert("rewritten_share_reloads", err == nil && ls != nil)
	if err == nil && ls != nil {
		zz.Assert("rewritten_share_is_the_last_written", ls.Share.I == s2.Share.I && ls.Share.V.Equal(s2.Share.V) && ls.Public().Equal(s2.Public()))
	}
}
