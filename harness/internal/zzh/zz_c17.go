// Package zzh holds harnesses that only need drand's exported API.
package zzh

import (
	"bytes"
	"fmt"
	"time"

	"github.com/drand/drand/v2/common"
	"github.com/drand/drand/v2/common/chain"
	"github.com/drand/drand/v2/common/key"
	"github.com/drand/drand/v2/crypto"
	"github.com/drand/drand/v2/internal/zzfake"
	zz "github.com/drand/drand/v2/internal/zzverif"
	"github.com/drand/kyber"
)

func init() {
	zz.Register("ZZ_C17_chainHash", ZZ_C17_chainHash)
}

var zzSchemeNames = []string{crypto.DefaultSchemeID, crypto.UnchainedSchemeID, crypto.SigsOnG1ID, crypto.ShortSigSchemeID, crypto.BN254UnchainedOnG1SchemeID}

func zzSchemeParam() *crypto.Scheme { return zzfake.Scheme(zzSchemeNames[zz.Param("scheme", 0)]) }

func zzPointFromBytes(sch *crypto.Scheme, name string) kyber.Point {
	// an arbitrary valid public key, determined injectively by 4 symbolic bytes
	return zzfake.PointFromBytes(sch, zz.Bytes(name, 4))
}

func zzSymInfo(sch *crypto.Scheme, pfx string, seedLen, idLen int) *chain.Info {
	p := zz.U32(pfx + ".period_s")
	zz.Assume(p >= 1)
	return &chain.Info{
		PublicKey:   zzPointFromBytes(sch, pfx+".pk"),
		ID:          zz.String(pfx+".id", idLen),
		Period:      time.Duration(p) * time.Second,
		Scheme:      sch.Name,
		GenesisTime: zz.I64(pfx + ".genesis"),
		GenesisSeed: zz.Bytes(pfx+".seed", seedLen),
	}
}

// ZZ_C17_chainHash: two arbitrary chain infos. Equal hash <=> equal committed parameters
// (period, genesis time, public key, seed, id with ""=="default"), on the direct path and the
// protobuf path; the hash ignores nothing it should commit to and nothing else.
func ZZ_C17_chainHash() {
	sch := zzSchemeParam()
	a := zzSymInfo(sch, "a", zz.Param("seed_a", 2), zz.Param("id_a", 2))
	b := zzSymInfo(sch, "b", zz.Param("seed_b", 2), zz.Param("id_b", 2))
	ha, hb := a.Hash(), b.Hash()
	sameHash := bytes.Equal(ha, hb)

	idEq := common.CompareBeaconIDs(a.ID, b.ID)
	pkEq := a.PublicKey.Equal(b.PublicKey)
	seedEq := bytes.Equal(a.GenesisSeed, b.GenesisSeed)
	perEq := a.Period == b.Period
	genEq := a.GenesisTime == b.GenesisTime
	allEq := zz.And(zz.And(perEq, genEq), zz.And(pkEq, zz.And(seedEq, idEq)))

	zz.Assert("determinism_equal_params_equal_hash", zz.Implies(allEq, sameHash))
	// sensitivity, one obligation per parameter: if everything else is equal and the hash is equal, so is this one
	zz.Assert("sensitive_to_period", zz.Implies(zz.And(sameHash, zz.And(genEq, zz.And(pkEq, zz.And(seedEq, idEq)))), perEq))
	zz.Assert("sensitive_to_genesis_time", zz.Implies(zz.And(sameHash, zz.And(perEq, zz.And(pkEq, zz.And(seedEq, idEq)))), genEq))
	zz.Assert("sensitive_to_public_key", zz.Implies(zz.And(sameHash, zz.And(perEq, zz.And(genEq, zz.And(seedEq, idEq)))), pkEq))
	zz.Assert("sensitive_to_seed", zz.Implies(zz.And(sameHash, zz.And(perEq, zz.And(genEq, zz.And(pkEq, idEq)))), seedEq))
	zz.Assert("sensitive_to_id", zz.Implies(zz.And(sameHash, zz.And(perEq, zz.And(genEq, zz.And(pkEq, seedEq)))), idEq))
	zz.Assert("hash_string_is_hex_of_hash", a.HashString() == fmt.Sprintf("%x", ha))
	zz.Assert("equal_method_agrees", a.Equal(b) == allEq)

	// protobuf path: ToProto carries the same hash, and decoding gives back an info with that hash
	pa := a.ToProto(nil)
	zz.Assert("proto_carries_hash", bytes.Equal(pa.Hash, ha))
	a2, err := chain.InfoFromProto(pa)
	if err == nil {
		zz.Assert("proto_roundtrip_same_hash", bytes.Equal(a2.Hash(), ha))
		zz.Assert("proto_roundtrip_equal", a2.Equal(a))
	} else {
		zz.Reach("proto_decode_error")
	}
	_ = key.MinimumT
}
