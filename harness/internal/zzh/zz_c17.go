// Package zzh holds harnesses that only need drand's exported API.
package zzh

import (
	"bytes"
	"encoding/json"
	"fmt"
	"time"

	"github.com/drand/drand/v2/common"
	"github.com/drand/drand/v2/common/chain"
	"github.com/drand/drand/v2/common/key"
	"github.com/drand/drand/v2/crypto"
	"github.com/drand/drand/v2/internal/zzfake"
	zz "github.com/drand/drand/v2/internal/zzverif"
	"github.com/drand/kyber"
)

func init() {
	zz.Register("ZZ_C17_chainHash", ZZ_C17_chainHash)
}

var zzSchemeNames = []string{crypto.DefaultSchemeID, crypto.UnchainedSchemeID, crypto.SigsOnG1ID, crypto.ShortSigSchemeID, crypto.BN254UnchainedOnG1SchemeID}

func zzSchemeParam() *crypto.Scheme { return zzfake.Scheme(zzSchemeNames[zz.Param("scheme", 0)]) }

func zzPointFromBytes(sch *crypto.Scheme, name string) kyber.Point {
	// an arbitrary valid public key, determined injectively by 4 symbolic bytes
	return zzfake.PointFromBytes(sch, zz.Bytes(name, 4))
}

func zzSymInfo(sch *crypto.Scheme, pfx string, seedLen, idLen int) *chain.Info {
	p := zz.U32(pfx + ".period_s")
	zz.Assume(p >= 1)
	return &chain.Info{
		PublicKey:   zzPointFromBytes(sch, pfx+".pk"),
		ID:          zz.String(pfx+".id", idLen),
		Period:      time.Duration(p) * time.Second,
		Scheme:      sch.Name,
		GenesisTime: zz.I64(pfx + ".genesis"),
		GenesisSeed: zz.Bytes(pfx+".seed", seedLen),
	}
}

// ZZ_C17_chainHash: two arbitrary chain infos. Equal hash <=> equal committed parameters
// (period, genesis time, public key, seed, id with ""=="default"), on the direct path and the
// protobuf path; the hash ignores nothing it should commit to and nothing else.
func ZZ_C17_chainHash() {
	sch := zzSchemeParam()
	a := zzSymInfo(sch, "a", zz.Param("seed_a", 2), zz.Param("id_a", 2))
	b := zzSymInfo(sch, "b", zz.Param("seed_b", 2), zz.Param("id_b", 2))
	ha, hb := a.Hash(), b.Hash()
	sameHash := bytes.Equal(ha, hb)

	idEq := common.CompareBeaconIDs(a.ID, b.ID)
	pkEq := a.PublicKey.Equal(b.PublicKey)
	seedEq := bytes.Equal(a.GenesisSeed, b.GenesisSeed)
	perEq := a.Period == b.Period
	genEq := a.GenesisTime == b.GenesisTime
	allEq := zz.And(zz.And(perEq, genEq), zz.And(pkEq, zz.And(seedEq, idEq)))

	zz.Assert("determinism_equal_params_equal_hash", zz.Implies(allEq, sameHash))
	// sensitivity, one obligation per parameter: if everything else is equal and the hash is equal, so is this one
	zz.Assert("sensitive_to_period", zz.Implies(zz.And(sameHash, zz.And(genEq, zz.And(pkEq, zz.And(seedEq, idEq)))), perEq))
	zz.Assert("sensitive_to_genesis_time", zz.Implies(zz.And(sameHash, zz.And(perEq, zz.And(pkEq, zz.And(seedEq, idEq)))), genEq))
	zz.Assert("sensitive_to_public_key", zz.Implies(zz.And(sameHash, zz.And(perEq, zz.And(genEq, zz.And(seedEq, idEq)))), pkEq))
	zz.Assert("sensitive_to_seed", zz.Implies(zz.And(sameHash, zz.And(perEq, zz.And(genEq, zz.And(pkEq, idEq)))), seedEq))
	zz.Assert("sensitive_to_id", zz.Implies(zz.And(sameHash, zz.And(perEq, zz.And(genEq, zz.And(pkEq, seedEq)))), idEq))
	zz.Assert("hash_string_is_hex_of_hash", a.HashString() == fmt.Sprintf("%x", ha))
	zz.Assert("equal_method_agrees", a.Equal(b) == allEq)

	// the hash follows the fields of the VALUE it is asked of: a copy of an info that was already hashed, with one
	// parameter replaced, hashes like a freshly built info with those parameters (nothing is remembered)
	c := *a
	switch zz.Choose("then_changed", 5) {
	case 0:
		c.Period = b.Period
	case 1:
		c.GenesisTime = b.GenesisTime
	case 2:
		c.PublicKey = b.PublicKey
	case 3:
		c.GenesisSeed = b.GenesisSeed
	case 4:
		c.ID = b.ID
	}
	fresh := &chain.Info{PublicKey: c.PublicKey, ID: c.ID, Period: c.Period, Scheme: c.Scheme, GenesisTime: c.GenesisTime, GenesisSeed: c.GenesisSeed}
	zz.Assert("hash_follows_the_fields_after_a_change", bytes.Equal(c.Hash(), fresh.Hash()))
	a.Period = b.Period // in place, after a.Hash() was computed above
	fresh2 := &chain.Info{PublicKey: a.PublicKey, ID: a.ID, Period: a.Period, Scheme: a.Scheme, GenesisTime: a.GenesisTime, GenesisSeed: a.GenesisSeed}
	zz.Assert("hash_follows_the_fields_after_a_change", bytes.Equal(a.Hash(), fresh2.Hash()))
	ha = a.Hash()

	// protobuf path: ToProto carries the same hash, and decoding gives back an info with that hash
	pa := a.ToProto(nil)
	zz.Assert("proto_carries_hash", bytes.Equal(pa.Hash, ha))
	a2, err := chain.InfoFromProto(pa)
	if err == nil {
		zz.Assert("proto_roundtrip_same_hash", bytes.Equal(a2.Hash(), ha))
		zz.Assert("proto_roundtrip_equal", a2.Equal(a))
	} else {
		zz.Reach("proto_decode_error")
	}
	_ = key.MinimumT
}

func init() { zz.Register("ZZ_C17_groupHash", ZZ_C17_groupHash) }

func zzSymGroup(sch *crypto.Scheme, pfx string, n, ncoef, idLen int) *key.Group {
	g := &key.Group{Scheme: sch, Period: 30 * time.Second}
	for i := 0; i < n; i++ {
		id := &key.Identity{Key: zzfake.PointFromBytes(sch, zz.Bytes(fmt.Sprintf("%s.node%d.key", pfx, i), 2)), Addr: fmt.Sprintf("n%d:1", i), Scheme: sch}
		g.Nodes = append(g.Nodes, &key.Node{Identity: id, Index: zz.U32(fmt.Sprintf("%s.node%d.index", pfx, i))})
	}
	for i := 0; i < n; i++ {
		for j := i + 1; j < n; j++ {
			zz.Assume(g.Nodes[i].Index != g.Nodes[j].Index)
		}
	}
	g.Threshold = int(zz.U32(pfx + ".threshold"))
	g.GenesisTime = zz.I64(pfx + ".genesis")
	g.TransitionTime = zz.I64(pfx + ".transition")
	if ncoef > 0 {
		g.PublicKey = &key.DistPublic{}
		for i := 0; i < ncoef; i++ {
			g.PublicKey.Coefficients = append(g.PublicKey.Coefficients, zzfake.PointFromBytes(sch, zz.Bytes(fmt.Sprintf("%s.coef%d", pfx, i), 2)))
		}
	}
	g.ID = zz.String(pfx+".id", idLen)
	return g
}

// ZZ_C17_groupHash: the group hash is independent of listing order and commits to every member key
// and index, threshold, genesis/transition time, distributed key and id.
func ZZ_C17_groupHash() {
	sch := zzSchemeParam()
	n, nc := zz.Param("n", 2), zz.Param("ncoef", 1)
	a := zzSymGroup(sch, "a", n, nc, zz.Param("id_a", 2))
	b := zzSymGroup(sch, "b", zz.Param("n_b", n), zz.Param("ncoef_b", nc), zz.Param("id_b", 2))

	// order independence: the same members listed in another order
	perm := &key.Group{Scheme: sch, Period: a.Period, Threshold: a.Threshold, GenesisTime: a.GenesisTime, TransitionTime: a.TransitionTime, PublicKey: a.PublicKey, ID: a.ID}
	rot := zz.Param("rot", 1)
	for i := range a.Nodes {
		perm.Nodes = append(perm.Nodes, a.Nodes[(i+rot)%len(a.Nodes)])
	}
	if zz.Param("reverse", 0) == 1 {
		for i, j := 0, len(perm.Nodes)-1; i < j; i, j = i+1, j-1 {
			perm.Nodes[i], perm.Nodes[j] = perm.Nodes[j], perm.Nodes[i]
		}
	}
	hperm := perm.Hash()
	ha := a.Hash()
	zz.Assert("independent_of_listing_order", bytes.Equal(ha, hperm))

	hb := b.Hash()
	sameHash := bytes.Equal(ha, hb)
	// after Hash() both node lists are sorted by index: compare position-wise
	nodesEq := len(a.Nodes) == len(b.Nodes)
	idxEq, keyEq := nodesEq, nodesEq
	if nodesEq {
		for i := range a.Nodes {
			idxEq = zz.And(idxEq, a.Nodes[i].Index == b.Nodes[i].Index)
			keyEq = zz.And(keyEq, a.Nodes[i].Key.Equal(b.Nodes[i].Key))
		}
	}
	thrEq := uint32(a.Threshold) == uint32(b.Threshold)
	genEq := a.GenesisTime == b.GenesisTime
	trEq := a.TransitionTime == b.TransitionTime
	pkEq := (a.PublicKey == nil) == (b.PublicKey == nil)
	if pkEq && a.PublicKey != nil {
		pkEq = a.PublicKey.Equal(b.PublicKey)
	}
	idEq := common.CompareBeaconIDs(a.ID, b.ID)
	and := func(xs ...bool) bool {
		r := true
		for _, x := range xs {
			r = zz.And(r, x)
		}
		return r
	}
	zz.Assert("determinism", zz.Implies(and(idxEq, keyEq, thrEq, genEq, trEq, pkEq, idEq), sameHash))
	zz.Assert("sensitive_to_member_index", zz.Implies(and(sameHash, nodesEq, keyEq, thrEq, genEq, trEq, pkEq, idEq), idxEq))
	zz.Assert("sensitive_to_member_key", zz.Implies(and(sameHash, nodesEq, idxEq, thrEq, genEq, trEq, pkEq, idEq), keyEq))
	zz.Assert("sensitive_to_threshold", zz.Implies(and(sameHash, idxEq, keyEq, genEq, trEq, pkEq, idEq), thrEq))
	zz.Assert("sensitive_to_genesis_time", zz.Implies(and(sameHash, idxEq, keyEq, thrEq, trEq, pkEq, idEq), genEq))
	zz.Assert("sensitive_to_transition_time", zz.Implies(and(sameHash, idxEq, keyEq, thrEq, genEq, pkEq, idEq), trEq))
	zz.Assert("sensitive_to_public_key", zz.Implies(and(sameHash, idxEq, keyEq, thrEq, genEq, trEq, idEq), pkEq))
	zz.Assert("sensitive_to_id", zz.Implies(and(sameHash, idxEq, keyEq, thrEq, genEq, trEq, pkEq), idEq))
	// membership size: comparable only between groups of the same shape (same optional parts present);
	// across shapes a collision needs a digest with chosen structure, which the injective-hash model
	// cannot rule out and the property (single-parameter changes) does not speak about.
	idA, idB := common.IsDefaultBeaconID(a.ID), common.IsDefaultBeaconID(b.ID)
	shapeEq := and((a.PublicKey == nil) == (b.PublicKey == nil), (a.TransitionTime == 0) == (b.TransitionTime == 0), idA == idB, idA || len(a.ID) == len(b.ID))
	zz.Assert("sensitive_to_membership_size", zz.Implies(and(sameHash, shapeEq), nodesEq))
}

func init() { zz.Register("ZZ_C17_infoJSON", ZZ_C17_infoJSON) }

// zzInfoDoc mirrors the JSON document chain.Info writes (same keys), so that the harness can edit one member.
type zzInfoDoc struct {
	PublicKey   string          `json:"public_key"`
	ID          string          `json:"beacon_id"`
	Period      uint64          `json:"period"`
	Scheme      string          `json:"scheme"`
	GenesisTime int64           `json:"genesis_time"`
	GenesisSeed common.HexBytes `json:"genesis_seed"`
	ChainHash   string          `json:"chain_hash"`
}

type zzLegacyMeta struct {
	BeaconID string `json:"beaconID"`
}

type zzLegacyDoc struct {
	PublicKey   string          `json:"public_key"`
	Period      uint64          `json:"period"`
	GenesisTime int64           `json:"genesis_time"`
	ChainHash   string          `json:"chain_hash"`
	SchemeID    string          `json:"schemeID"`
	GroupHash   common.HexBytes `json:"groupHash"`
	Metadata    *zzLegacyMeta   `json:"metadata"`
}

func zzMustBin(p kyber.Point) []byte {
	b, err := p.MarshalBinary()
	if err != nil {
		panic(err)
	}
	return b
}

// ZZ_C17_infoJSON: the JSON path of chain info (the real Info.MarshalJSON / Info.UnmarshalJSON and
// common.HexBytes codecs; the JSON text layer itself is modelled structurally). Encoding then decoding gives
// an equal info with the same hash, and a document whose embedded chain_hash does not match its (edited)
// fields is rejected on decode -- also when it is decoded into an Info object that was used before.
func ZZ_C17_infoJSON() {
	sch := zzSchemeParam()
	a := zzSymInfo(sch, "a", zz.Param("seed_a", 2), zz.Param("id_a", 2))
	b := zzSymInfo(sch, "b", zz.Param("seed_b", 2), zz.Param("id_b", 2))
	ha := a.Hash()
	data, err := json.Marshal(a)
	zz.Assert("info_encodes", err == nil)
	if err != nil {
		return
	}
	back := new(chain.Info)
	err = json.Unmarshal(data, back)
	zz.Assert("info_decodes_what_it_encoded", err == nil)
	if err == nil {
		zz.Assert("json_roundtrip_equal", back.Equal(a))
		zz.Assert("json_roundtrip_same_hash", bytes.Equal(back.Hash(), ha))
	}
	// edit one committed member of the document, keep the embedded hash
	var doc zzInfoDoc
	if err := json.Unmarshal(data, &doc); err != nil {
		panic(err)
	}
	zz.Assert("document_embeds_the_hash", doc.ChainHash == fmt.Sprintf("%x", ha))
	switch zz.Choose("edited_member", 5) {
	case 0:
		zz.Assume(uint32(b.Period.Seconds()) != uint32(a.Period.Seconds()))
		doc.Period = uint64(b.Period.Seconds())
	case 1:
		zz.Assume(b.GenesisTime != a.GenesisTime)
		doc.GenesisTime = b.GenesisTime
	case 2:
		zz.Assume(!b.PublicKey.Equal(a.PublicKey))
		raw, _ := b.PublicKey.MarshalBinary()
		doc.PublicKey = fmt.Sprintf("%x", raw)
	case 3:
		zz.Assume(!bytes.Equal(b.GenesisSeed, a.GenesisSeed))
		doc.GenesisSeed = b.GenesisSeed
	case 4:
		zz.Assume(!common.CompareBeaconIDs(b.ID, a.ID))
		doc.ID = b.ID
	}
	var forged []byte
	if zz.Bool("legacy_document_form") {
		// the older relay form of the same document: schemeID / groupHash / metadata.beaconID instead of
		// scheme / genesis_seed / beacon_id. It is still accepted on decode and carries the same commitments.
		leg := zzLegacyDoc{PublicKey: doc.PublicKey, Period: doc.Period, GenesisTime: doc.GenesisTime, ChainHash: doc.ChainHash,
			SchemeID: doc.Scheme, GroupHash: doc.GenesisSeed, Metadata: &zzLegacyMeta{BeaconID: doc.ID}}
		good := zzLegacyDoc{PublicKey: fmt.Sprintf("%x", zzMustBin(a.PublicKey)), Period: uint64(a.Period.Seconds()), GenesisTime: a.GenesisTime, ChainHash: doc.ChainHash,
			SchemeID: a.Scheme, GroupHash: a.GenesisSeed, Metadata: &zzLegacyMeta{BeaconID: a.ID}}
		gd, err := json.Marshal(good)
		if err != nil {
			panic(err)
		}
		legacyBack := new(chain.Info)
		zz.Assert("legacy_document_with_matching_hash_decodes", json.Unmarshal(gd, legacyBack) == nil && legacyBack.Equal(a))
		forged, err = json.Marshal(leg)
		if err != nil {
			panic(err)
		}
	} else {
		var err error
		forged, err = json.Marshal(doc)
		if err != nil {
			panic(err)
		}
	}
	target := new(chain.Info)
	if zz.Bool("decode_into_a_used_object") {
		target = back // holds chain a and has been hashed already
		_ = target.Hash()
	}
	err = json.Unmarshal(forged, target)
	zz.Assert("mismatching_embedded_hash_is_rejected", err != nil)
}
