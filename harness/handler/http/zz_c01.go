package http

import (
	"context"
	"encoding/json"
	"fmt"
	"time"

	chain2 "github.com/drand/drand/v2/common/chain"
	client2 "github.com/drand/drand/v2/common/client"
	"github.com/drand/drand/v2/crypto"
	"github.com/drand/drand/v2/internal/zzfake"
	zz "github.com/drand/drand/v2/internal/zzverif"
)

func init() {
	zz.Register("ZZ_C01_httpGetRand", ZZ_C01_httpGetRand)
	zz.Register("ZZ_C19_httpRouting", ZZ_C19_httpRouting)
}

type zzResult struct {
	Round      uint64 `json:"round"`
	Randomness []byte `json:"randomness"`
	Signature  []byte `json:"signature"`
}

func (r *zzResult) GetRound() uint64      { return r.Round }
func (r *zzResult) GetRandomness() []byte { return r.Randomness }
func (r *zzResult) GetSignature() []byte  { return r.Signature }

// zzNodeClient stands for the node behind the HTTP relay: Get(r) answers round r, Watch streams what the
// harness pushes.
type zzNodeClient struct {
	stream chan client2.Result
	info   *chain2.Info
	tag    byte
}

func (c *zzNodeClient) Get(_ context.Context, round uint64) (client2.Result, error) {
	return &zzResult{Round: round, Signature: []byte{c.tag, byte(round)}}, nil
}
func (c *zzNodeClient) Watch(context.Context) <-chan client2.Result { return c.stream }
func (c *zzNodeClient) Info(context.Context) (*chain2.Info, error)  { return c.info, nil }
func (c *zzNodeClient) RoundAt(time.Time) uint64                    { return 0 }
func (c *zzNodeClient) Close() error                                { return nil }

func zzInfo(id string) *chain2.Info {
	sch := zzfake.Scheme(crypto.DefaultSchemeID)
	return &chain2.Info{PublicKey: zzfake.KeyPair(sch, "n:1", "http-"+id).Public.Key, ID: id, Period: 30 * time.Second, Scheme: sch.Name,
		GenesisTime: 1000, GenesisSeed: []byte("seed-" + id)}
}

func zzRoundOf(b []byte) (uint64, bool) {
	if len(b) == 0 {
		return 0, false
	}
	// only the round is read back: the relay renders byte strings as hex (hexjson), which encoding/json does
	// not decode as such
	var r struct {
		Round uint64 `json:"round"`
	}
	if err := json.Unmarshal(b, &r); err != nil {
		return 0, false
	}
	return r.Round, true
}

// ZZ_C01_httpGetRand: a request for the next round races with the watch loop delivering rounds, under every
// schedule with at most `preemptions` context switches at lock/channel operations. A successful answer to a
// request for round r contains round r and nothing else.
func ZZ_C01_httpGetRand() {
	ctx, cancel := context.WithCancel(context.Background())
	h := &DrandHandler{timeout: reqTimeout, log: zzfake.Logger(), context: ctx, version: "zz", beacons: map[string]*BeaconHandler{}}
	cl := &zzNodeClient{stream: make(chan client2.Result, 4), info: zzInfo("default"), tag: 0xaa}
	h.RegisterNewBeaconHandler(cl, "abcd")
	hash := []byte{0xab, 0xcd}
	// first request starts the watch loop; the loop learns round 10
	if _, err := h.getRand(ctx, hash, cl.info, 5); err != nil {
		panic(err)
	}
	cl.stream <- &zzResult{Round: 10, Signature: []byte{0xaa, 10}}
	zz.Quiesce()
	want := uint64(10 + zz.Choose("requested_offset", 3)) // ask for round 10, 11 (the next one) or 12
	var got []byte
	var gerr error
	done := false
	go func() {
		got, gerr = h.getRand(ctx, hash, cl.info, want)
		done = true
	}()
	// the node keeps producing: 11, 12, 13 arrive while the request is in flight
	for r := uint64(11); r <= 13; r++ {
		cl.stream <- &zzResult{Round: r, Signature: []byte{0xaa, byte(r)}}
		zz.Quiesce()
	}
	zz.Quiesce()
	cancel()
	zz.Quiesce()
	if done && gerr == nil {
		if r, ok := zzRoundOf(got); ok {
			zz.Assert("answer_is_the_requested_round", r == want)
		}
	}
}

// ZZ_C19_httpRouting: the HTTP handler table serves a chain hash only with that chain's handler; removed
// chains stop resolving, the default entry follows the default chain.
func ZZ_C19_httpRouting() {
	ctx := context.Background()
	h := &DrandHandler{timeout: reqTimeout, log: zzfake.Logger(), context: ctx, version: "zz", beacons: map[string]*BeaconHandler{}}
	clA := &zzNodeClient{stream: make(chan client2.Result, 1), info: zzInfo("default"), tag: 0xa0}
	clB := &zzNodeClient{stream: make(chan client2.Result, 1), info: zzInfo("beta"), tag: 0xb0}
	hashA, hashB := []byte{0xaa, 0x01}, []byte{0xbb, 0x02}
	bhA := h.RegisterNewBeaconHandler(clA, fmt.Sprintf("%x", hashA))
	bhB := h.RegisterNewBeaconHandler(clB, fmt.Sprintf("%x", hashB))
	// reference table: which handler each key resolves to (nil = refused)
	live := map[string]*BeaconHandler{"a": bhA, "b": bhB, "default": nil}
	if zz.Bool("default_chain_registered") { // a daemon need not run a chain with the default id
		h.RegisterDefaultBeaconHandler(bhA)
		live["default"] = bhA
	}
	for i := 0; i < zz.Param("history", 2); i++ {
		switch zz.Choose("history", 6) {
		case 1:
			h.RemoveBeaconHandler(fmt.Sprintf("%x", hashB))
			live["b"] = nil
		case 2:
			h.RemoveBeaconHandler(fmt.Sprintf("%x", hashA))
			live["a"] = nil
		case 3:
			h.RemoveBeaconHandler("default")
			live["default"] = nil
		case 4: // chain A is (re)loaded: reshare, stop + load
			bhA = h.RegisterNewBeaconHandler(clA, fmt.Sprintf("%x", hashA))
			live["a"] = bhA
		case 5:
			bhB = h.RegisterNewBeaconHandler(clB, fmt.Sprintf("%x", hashB))
			live["b"] = bhB
		}
	}
	var req []byte
	kind := zz.Choose("request.hash", 5) // absent, A, B, unknown symbolic, one symbolic byte
	switch kind {
	case 1:
		req = hashA
	case 2:
		req = hashB
	case 3:
		req = zz.Bytes("request.sym2", 2)
		zz.Assume(string(req) != string(hashA) && string(req) != string(hashB))
	case 4:
		req = zz.Bytes("request.sym1", 1)
	}
	bh, err := h.getBeaconHandler(req)
	switch kind {
	case 0:
		zz.Assert("no_hash_goes_to_default_only", (err == nil) == (live["default"] != nil) && (err != nil || bh == live["default"]))
	case 1:
		zz.Assert("hash_a_serves_chain_a_only", (err == nil) == (live["a"] != nil) && (err != nil || bh == live["a"]))
	case 2:
		zz.Assert("hash_b_serves_chain_b_only", (err == nil) == (live["b"] != nil) && (err != nil || bh == live["b"]))
	default:
		zz.Assert("unknown_hash_is_refused", err != nil)
	}
}

func init() { zz.Register("ZZ_C14_httpCancelledWaiter", ZZ_C14_httpCancelledWaiter) }

// ZZ_C14_httpCancelledWaiter: a request parked for the next round is cancelled (the HTTP client disconnects)
// while the watch loop delivers that round, under every schedule with at most `preemptions` context switches
// at lock/channel operations. The node process survives (no panic escapes the watch goroutine, which no
// recovery interceptor covers), the cancelled request returns, and the handler keeps releasing later waiters.
func ZZ_C14_httpCancelledWaiter() {
	ctx, cancel := context.WithCancel(context.Background())
	h := &DrandHandler{timeout: reqTimeout, log: zzfake.Logger(), context: ctx, version: "zz", beacons: map[string]*BeaconHandler{}}
	cl := &zzNodeClient{stream: make(chan client2.Result, 4), info: zzInfo("default"), tag: 0xaa}
	h.RegisterNewBeaconHandler(cl, "abcd")
	hash := []byte{0xab, 0xcd}
	if _, err := h.getRand(ctx, hash, cl.info, 5); err != nil {
		panic(err)
	}
	cl.stream <- &zzResult{Round: 10, Signature: []byte{0xaa, 10}}
	zz.Quiesce()
	reqCtx, reqCancel := context.WithCancel(ctx)
	returned := false
	go func() {
		_, _ = h.getRand(reqCtx, hash, cl.info, 11) // parked: 11 is the next round
		returned = true
	}()
	zz.Quiesce()
	// round 11 is produced and the client goes away, in either order and at any point of the hand-over
	if zz.Bool("cancel_first") {
		reqCancel()
		cl.stream <- &zzResult{Round: 11, Signature: []byte{0xaa, 11}}
	} else {
		cl.stream <- &zzResult{Round: 11, Signature: []byte{0xaa, 11}}
		reqCancel()
	}
	zz.Quiesce()
	zz.Assert("cancelled_request_returns", returned)
	// still serving: a new waiter for round 12 is released with round 12
	var got []byte
	var gerr error
	served := false
	go func() {
		got, gerr = h.getRand(ctx, hash, cl.info, 12)
		served = true
	}()
	zz.Quiesce()
	cl.stream <- &zzResult{Round: 12, Signature: []byte{0xaa, 12}}
	zz.Quiesce()
	r, ok := zzRoundOf(got)
	zz.Assert("watch_loop_still_releases_waiters", served && gerr == nil && ok && r == 12)
	cancel()
	zz.Quiesce()
}
