package http

import (
	"testing"

	zz "github.com/drand/drand/v2/internal/zzverif"
)

func TestZZReplay(t *testing.T) { zz.RunReplay(t) }
